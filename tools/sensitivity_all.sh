#!/bin/bash
# The whole sensitivity suite in parallel streams (one per property, STREAMS at a time): hand-written mutants with the
# repository's own tests (TESTS=1), then every kept seeded change (its suite result was recorded when it was confirmed:
# seeded/<id>/meta.json).  Writes sensitivity/mutants.txt and sensitivity/seeded.txt (read by tools/fill_design.py).
#   tools/sensitivity_all.sh [streams, default 3]
cd "$(dirname "$0")/.."
STREAMS=${1:-3}
T=sensitivity/tmp; rm -rf $T; mkdir -p $T
props="C08 C07 C02 C01 C17 C18 C06 C15 C03 C05 C04 C16"
running=0
for pre in $props; do
  ( TESTS=1 tools/sensitivity.sh $pre > $T/mut-$pre.txt 2>&1
    ALL=1 ONLY_SEEDED=1 tools/sensitivity.sh $pre > $T/seed-$pre.txt 2>&1 ) &
  running=$((running + 1))
  if [ $running -ge $STREAMS ]; then wait -n; running=$((running - 1)); fi
done
wait
cat $T/mut-*.txt | grep " prop=" | sort > sensitivity/mutants.txt
cat $T/seed-*.txt | grep " prop=" | sort | sed -E 's/^(\S+) prop=(\S+) tests\(pass\/fail\)=\S+ check_rc=([0-9]+) first_signature=(.*)$/seeded \1 vs \2: rc=\3 first_signature=\4/' > sensitivity/seeded.txt
echo "mutants: $(wc -l < sensitivity/mutants.txt) ($(grep -c 'check_rc=1' sensitivity/mutants.txt) caught)  seeded: $(wc -l < sensitivity/seeded.txt) ($(grep -c 'rc=1 ' sensitivity/seeded.txt) caught)"
grep -v "check_rc=1" sensitivity/mutants.txt; grep -v "rc=1 " sensitivity/seeded.txt
rm -rf $T
