#!/usr/bin/python3
"""Regenerate section 12.5 of DESIGN.md (which checks catch which changes) from sensitivity/*.txt and seeded/*/meta.json."""
import glob, json, os, re
HERE = os.path.dirname(os.path.dirname(os.path.abspath(__file__)))
out = ["### 12.5 Which checks catch which changes", "",
       "Two independent sources of property-breaking changes; each is applied to a scratch copy of /repo (or to /repo itself and",
       "reverted straight afterwards) and the property's **quick** check must exit 1.", "",
       "**(a) Hand-written mutants** (`mutants/*.diff`, `tools/sensitivity.sh`, results in `sensitivity/mutants.txt`). The",
       "`suite` column is the repository's own test suite run on the mutated copy (pass/fail): a mutant that fails the suite is",
       "visible to the existing tests and only shows that the check is at least as sharp as they are.", "",
       "| mutant | property | suite pass/fail | check exit | first signature |", "|---|---|---|---|---|"]
p = os.path.join(HERE, "sensitivity", "mutants.txt")
if os.path.exists(p):
    for ln in open(p):
        m = re.match(r"(\S+) prop=(\S+) tests\(pass/fail\)=(\S+) check_rc=(\d+) first_signature=(.*)", ln.strip())
        if m:
            out.append("| %s | %s | %s | %s | `%s` |" % (m.group(1), m.group(2), m.group(3), m.group(4), m.group(5).replace("|", "\\|")))
metas = [json.load(open(d)) for d in sorted(glob.glob(os.path.join(HERE, "seeded", "*", "meta.json")))]
rounds = {}
for m in metas:
    r = m["id"].split("-")[1][0]
    first = not m["history"].upper().startswith("MISSED")
    a = rounds.setdefault(r, [0, 0])
    a[0] += 1
    a[1] += first
out += ["", "**(b) Changes written by independent sub-agents** (`seeded/<id>/`: patch.diff, the agent's demonstration, meta.json). Each",
        "agent got only the text of one property and its own scratch worktree - nothing from /verif; from round B on it was also told,",
        "in one line each, which ideas earlier rounds had used for that property, and asked for a different mechanism. Every change was",
        "confirmed by me in the scratch worktree (suite 223/0 with the change; demonstration fails with it and passes without it) before",
        "it was kept. 'First run' is the verdict of the harness as it was when the round was launched (from round C on measured",
        "mechanically with `tools/measure_round.sh <commit> <round>`); 'now' is the current harness.", "",
        "| round | changes | caught at first run | caught now |", "|---|---|---|---|"]
res0 = {}
_p = os.path.join(HERE, "sensitivity", "seeded.txt")
if os.path.exists(_p):
    for ln in open(_p):
        m = re.search(r"seeded (\S+) vs (\S+): rc=(\d+)", ln)
        if m:
            res0[m.group(1)] = m.group(3)
now_caught = {}
for d in sorted(glob.glob(os.path.join(HERE, "seeded", "*", "meta.json"))):
    m = json.load(open(d))
    rc = res0.get(m["id"]) or ("0" if "rc=0" in m.get("check_result", "") else "1")
    r = m["id"].split("-")[1][0]
    now_caught[r] = now_caught.get(r, 0) + (1 if rc == "1" else 0)
for r in sorted(rounds):
    out.append("| %s | %d | %d | %d |" % (r.upper(), rounds[r][0], rounds[r][1], now_caught.get(r, 0)))
out += ["",
        "The agents were asked for changes that evade ordinary use and the existing tests, and from round B on also the ideas already",
        "used - i.e. they were aimed at whatever the workloads did not yet contain. Every miss turned out to be a blind spot of a",
        "*generator* (a file shape, a configuration, an environment, a fault combination or a history the workload never produced)",
        "- with two exceptions where the oracle was at fault: C05 compared check with edit only, so a statement both overlooked went",
        "unnoticed (C05-k; a model-based clause was added), and violations of a tool made to race inside its own process did not",
        "reproduce on re-execution (C02-i; three confirmation attempts now). Each miss was closed by widening the generator, after",
        "which the change is caught - except C06-l, which needs a source file whose size lies within 0.1 % of a parser budget that only",
        "that change introduces (2.3 MB of ordinary code): random sizes do not land there, and a search for the threshold would be a",
        "check written for one change. It is listed as MISSED. The misses are the most useful part of this table: they say which",
        "dimensions a fresh change is most likely to hide in.", "",
        "| id | property | what it needs to manifest | first run | now | what was strengthened |", "|---|---|---|---|---|---|"]
res = {}
p = os.path.join(HERE, "sensitivity", "seeded.txt")
if os.path.exists(p):
    for ln in open(p):
        m = re.search(r"seeded (\S+) vs (\S+): rc=(\d+)", ln)
        if m:
            res[m.group(1)] = m.group(3)
for d in sorted(glob.glob(os.path.join(HERE, "seeded", "*", "meta.json"))):
    m = json.load(open(d))
    hist = m["history"]
    first = "missed" if hist.upper().startswith("MISSED") else "caught"
    now = {"1": "caught (exit 1)", "0": "MISSED", "2": "harness error"}.get(res.get(m["id"]) or ("0" if "rc=0" in m.get("check_result", "") else "1"))
    out.append("| %s | %s | %s | %s | %s | %s |" % (m["id"], m["property"], m["needs_to_manifest"].replace("|", "/"), first, now,
                                                  hist.replace("|", "\\|")))
out.append("")
s = open(os.path.join(HERE, "DESIGN.md")).read()
block = "\n".join(out)
if "@@SENSITIVITY@@" in s:
    s = s.replace("@@SENSITIVITY@@", "<!-- 12.5 begin -->\n" + block + "\n<!-- 12.5 end -->")
else:
    s = re.sub(r"<!-- 12.5 begin -->.*?<!-- 12.5 end -->", lambda _m: "<!-- 12.5 begin -->\n" + block + "\n<!-- 12.5 end -->", s, flags=re.S)
open(os.path.join(HERE, "DESIGN.md"), "w").write(s)
print("section 12.5 regenerated: %d lines" % len(out))
