#!/bin/sh
# Sensitivity suite: every patch in mutants/ (and, with ALL=1, every kept seeded change) is applied to a scratch copy
# of /repo under /dev/shm, built, and the property's quick check must exit 1.  With TESTS=1 the repository's own suite
# is run on the scratch copy first (it must still pass: the mutant is invisible to the existing tests).
#   tools/sensitivity.sh [name-prefix]
cd "$(dirname "$0")/.."
pre=$1
S=/dev/shm/blsim-sens-$$
B=/dev/shm/blsim-sens-build-$$   # one build directory per invocation: two invocations must never swap binaries
mkdir -p $B
list=$(ls mutants/${pre}*.diff 2>/dev/null)
[ -n "$ONLY_SEEDED" ] && list=""
[ -n "$ALL" ] && list="$list $(ls seeded/${pre}*/patch.diff 2>/dev/null)"
fail=0
for patch in $list; do
  case $patch in
    mutants/*) name=$(basename $patch .diff); prop=${name%%_*};;
    *) name=$(basename $(dirname $patch)); prop=${name%%-*};;
  esac
  rm -rf $S; mkdir -p $S/repo
  (cd /repo && git archive HEAD) | tar -x -C $S/repo
  if ! (cd $S/repo && patch -p1 -s < "$OLDPWD/$patch"); then echo "$name: PATCH DOES NOT APPLY"; fail=1; continue; fi
  tests="-"
  if [ -n "$TESTS" ]; then
    tests=$(cd $S/repo && CARGO_TARGET_DIR=$B/testtarget cargo test --workspace --no-fail-fast --offline 2>&1 | grep -E "^test result" | awk '{p+=$4; f+=$6} END {print p"/"f}')
  fi
  out=$(BLSIM_REPO=$S/repo BLSIM_BUILD_DIR=$B ./check $prop --tier quick --no-shrink 2>&1)
  rc=$?
  sig=$(echo "$out" | grep -m1 "signature:" | sed 's/.*signature: //')
  echo "$name prop=$prop tests(pass/fail)=$tests check_rc=$rc first_signature=$sig"
  [ $rc -ne 1 ] && fail=1
done
rm -rf $S $B
exit $fail
