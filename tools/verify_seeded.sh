#!/bin/sh
# Confirm a sub-agent's seeded change in its scratch worktree: patch is src-only, suite passes with it,
# demo fails with it and passes without it.  usage: verify_seeded.sh C07 [worktree]
id=$1
wt=${2:-/tmp/seed-$id}
cd $wt || exit 2
export CARGO_NET_OFFLINE=true
echo "== $id in $wt"
git diff --stat -- . ':!demo' | tail -3
git diff -- src Cargo.toml > /tmp/vs-$id.diff
if ! cmp -s /tmp/vs-$id.diff demo/patch.diff; then echo "NOTE: working tree diff differs from demo/patch.diff"; fi
grep -c '^diff' demo/patch.diff
t=$(cargo test --workspace --no-fail-fast --offline 2>&1 | grep -E "^test result" | awk '{p+=$4; f+=$6} END {print p" passed "f" failed"}')
echo "tests with change: $t"
bash demo/demo.sh > /tmp/vs-$id.with.txt 2>&1; rc1=$?
git apply -R demo/patch.diff || { echo "cannot reverse patch"; exit 2; }
bash demo/demo.sh > /tmp/vs-$id.without.txt 2>&1; rc0=$?
git apply demo/patch.diff
echo "demo rc with change=$rc1 without=$rc0"
rm -rf target
