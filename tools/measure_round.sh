#!/bin/sh
# Measure how many of a round's seeded changes the harness AS IT WAS at <commit> catches (quick tier):
#   tools/measure_round.sh <harness-commit> <round-letter>        e.g.  tools/measure_round.sh bfab2dc c
h=$1; r=$2
cd "$(dirname "$0")/.."
V=$PWD
O=/dev/shm/verif-old-$$
git worktree add -q --detach $O $h || exit 2
for d in seeded/*-$r*/; do
  n=$(basename $d); p=${n%%-*}
  S=/dev/shm/blsim-oldh-$$-$n; mkdir -p $S/repo
  (cd /repo && git archive HEAD) | tar -x -C $S/repo
  if ! (cd $S/repo && git init -q . && git apply $V/$d/patch.diff); then echo "$n patch-does-not-apply"; rm -rf $S; continue; fi
  (cd $O && BLSIM_REPO=$S/repo BLSIM_BUILD_DIR=$S/build ./check $p --no-shrink > $S.log 2>&1); rc=$?
  echo "$n harness=$h rc=$rc $(grep -m1 'signature:' $S.log | cut -c1-120)"
  rm -rf $S $S.log
done
git worktree remove --force $O
