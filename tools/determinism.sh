#!/bin/sh
# Determinism proof: every case of every property is executed in separate orchestrator processes at
# 1 (subset), 4 and 16 workers and under two PYTHONHASHSEEDs; the per-case event-log digests (normalised
# traces of every simulated process, endings, outputs) and verdicts must be identical.
#   tools/determinism.sh [cases-per-property, default 120] [props...]
set -e
cd "$(dirname "$0")/.."
N=${1:-120}
shift 2>/dev/null || true
PROPS=${@:-C01 C02 C03 C04 C05 C06 C07 C08 C15 C16 C17 C18}
OUT=$(mktemp -d /dev/shm/blsim-det-XXXXXX)
rc=0
total=0
for p in $PROPS; do
  PYTHONHASHSEED=1 ./check $p --cases $N --workers 16 --no-shrink --dump-digests $OUT/$p.a >/dev/null 2>&1 || true
  PYTHONHASHSEED=7777 ./check $p --cases $N --workers 4 --no-shrink --dump-digests $OUT/$p.b >/dev/null 2>&1 || true
  PYTHONHASHSEED=31337 VERIF_SEED=99 ./check $p --cases $N --workers 16 --no-shrink --dump-digests $OUT/$p.c >/dev/null 2>&1 || true
  PYTHONHASHSEED=5 VERIF_SEED=99 ./check $p --cases $N --workers 7 --no-shrink --dump-digests $OUT/$p.d >/dev/null 2>&1 || true
  n=$(wc -l < $OUT/$p.a)
  total=$((total + n + $(wc -l < $OUT/$p.c)))
  if cmp -s $OUT/$p.a $OUT/$p.b && cmp -s $OUT/$p.c $OUT/$p.d && [ "$n" -gt 0 ]; then
    echo "$p: $n + $(wc -l < $OUT/$p.c) cases identical across worker counts and hash seeds"
  else
    echo "$p: NONDETERMINISM"; diff $OUT/$p.a $OUT/$p.b | head -5; diff $OUT/$p.c $OUT/$p.d | head -5; rc=1
  fi
done
rm -rf $OUT
echo "determinism: $total case executions compared twice; rc=$rc"
exit $rc
