#!/usr/bin/python3
"""Generate the sensitivity suite's patches (/verif/mutants/*.diff) from string replacements against /repo HEAD.
Each mutant: (name, property, file, old, new). Run again whenever /repo changes."""
import os, subprocess, sys, tempfile, shutil
M = []
def m(name, prop, f, old, new): M.append((name, prop, f, old, new))

G = "src/codegen/generate.rs"
C = "src/config/context.rs"
F = "src/codegen/finder.rs"
MAIN = "src/main.rs"
RP = "src/parser/rust_parser.rs"
CP = "src/parser/code_parser.rs"

m("C01_exhausted_not_sticky", "C01", G, "|id| if id == 0 { None } else { Some(id.wrapping_add(1)) },", "|id| if id == 0 { None } else { Some(id.wrapping_add(1).max(1)) },")
m("C01_ids_in_complete_files_ignored", "C01", G, "        return Some((max_file_ref, num_missing_refs));", "        if num_missing_refs == 0 && max_file_ref > 1000\n        {\n            return Some((0, 0));\n        }\n\n        return Some((max_file_ref, num_missing_refs));")
m("C02_interrupted_writes_start", "C02", G, "                    context.cache_next_reference_id(\n                        cachable_reference_id,", "                    context.cache_next_reference_id(\n                        calculated_next_reference_id,")
m("C02_lock_only_on_success", "C02", G, "                if cachable_reference_id != calculated_next_reference_id\n                {", "                if false\n                {")
m("C03_tail_skipped_when_large", "C03", G, "        if unwritten_content_start_pos < end_of_file_index\n", "        if unwritten_content_start_pos < end_of_file_index && unwritten_content_start_pos < 65536\n")
m("C04_lock_written_in_check", "C04", G, "        if missing_reference_count > 0\n        {\n            return Err(\"One or more missing references were found\");",
  "        if let Some(id) = context.cached_next_reference_id { context.cache_next_reference_id(id, context.config.config_dir.as_str()); }\n        if missing_reference_count > 0\n        {\n            return Err(\"One or more missing references were found\");")
m("C05_exit_status_gt_one", "C05", G, "        if missing_reference_count > 0\n        {\n            return Err(\"One or more", "        if missing_reference_count > 1\n        {\n            return Err(\"One or more")
m("C06_target_position_reverted", "C06", RP, "                                (true, Some(span)) => Some(CodePosition::new(", "                                (true, Some(span)) if span.start() == 0 => Some(CodePosition::new(")
m("C07_rename_before_flush", "C07", G, "        match scratch_file.file().flush().await\n        {", "        match async_std::fs::metadata(path).await.map(|_| ())\n        {")
m("C07_write_in_place", "C07", G, "        match async_std::fs::rename(scratch_file.path(), path).await\n", "        match async_std::fs::copy(scratch_file.path(), path).await.map(|_| ())\n")
m("C08_failure_flag_dropped", "C08", G, "        if reference_updates.failure\n        {", "        if reference_updates.failure && reference_updates.num_inserted_references == 0\n        {")
m("C08_scratch_left_after_failed_rename", "C08", G, "                tracing::event!(tracing::Level::TRACE, \"failed_to_rename_temp_file\");\n", "                tracing::event!(tracing::Level::TRACE, \"failed_to_rename_temp_file\");\n                scratch_file.path.clear();\n")
m("C15_follow_links", "C15", F, "WalkDir::new(&self.context.config.source_dir)\n", "WalkDir::new(&self.context.config.source_dir).follow_links(true)\n")
m("C15_ext_case_insensitive", "C15", F, "if self.context.config.rust.extensions.contains(&extension_str)", "if self.context.config.rust.extensions.iter().any(|e| e.eq_ignore_ascii_case(&extension_str))")
m("C15_ext_ends_with", "C15", F, "if self.context.config.rust.extensions.contains(&extension_str)", "if self.context.config.rust.extensions.iter().any(|e| extension_str.ends_with(e.as_str()))")
m("C15_non_regular_files", "C15", F, ".filter(|e| e.file_type().is_file())", ".filter(|e| !e.file_type().is_dir() && !e.file_type().is_symlink())")
m("C15_same_file_system", "C15", F, "WalkDir::new(&self.context.config.source_dir)\n", "WalkDir::new(&self.context.config.source_dir).same_file_system(true)\n")
m("C16_default_extensions_wider", "C16", C, 'vec!["rs".to_string()]', 'vec!["rs".to_string(), "rsx".to_string()]')
m("C16_lock_read_regardless", "C16", C, "        if !config.use_cache\n        {\n            return Ok(None);\n        }\n\n        match std::fs::read_to_string(cache_path)",
  "        if !config.use_cache && config.source_dir.is_empty()\n        {\n            return Ok(None);\n        }\n\n        match std::fs::read_to_string(cache_path)")
m("C16_corrupt_lock_to_one", "C16", C, "                    log::warn!(\n                        \"[ref: 31] Failed to parse lock file {}: {}\",\n                        Context::CACHE_FILENAME,\n                        e\n                    );\n                    Ok(None)",
  "                    log::warn!(\n                        \"[ref: 31] Failed to parse lock file {}: {}\",\n                        Context::CACHE_FILENAME,\n                        e\n                    );\n                    Ok(Some(1))")
m("C17_abort_on_unreadable", "C17", G, "            if let Some(file_contents) = load_code(&path).await\n            {", "            let loaded = load_code(&path).await;\n            if loaded.is_none() { return None; }\n            if let Some(file_contents) = loaded\n            {")
m("C17_unreadable_file_silently_skipped", "C17", G, "                error!(\"[ref: 4] Failed to read file {}: {}\", path_copy, e);", "                let _ = (&path_copy, &e);")
m("C18_flag_not_polled", "C18", G, "            if stop_flag.load(std::sync::atomic::Ordering::Relaxed)\n            {\n                return None;\n            }\n\n            let path = file.path.clone();",
  "            let path = file.path.clone();")
m("C18_only_sigint", "C18", MAIN, "for signal in [signal_hook::consts::SIGTERM, signal_hook::consts::SIGINT]", "for signal in [signal_hook::consts::SIGINT]")
m("C18_interrupted_check_ok", "C18", G, "                None => return Err(\"Check was interrupted before it completed\"),", "                None => return Ok(0),")

out = os.path.join(os.path.dirname(os.path.dirname(os.path.abspath(__file__))), "mutants")
for fn in os.listdir(out):
    if fn.endswith(".diff"): os.unlink(os.path.join(out, fn))
bad = 0
for name, prop, f, old, new in M:
    src = subprocess.run(["git", "-C", "/repo", "show", "HEAD:" + f], stdout=subprocess.PIPE, text=True).stdout
    if src.count(old) != 1:
        print("MUTANT DOES NOT APPLY (%d matches): %s" % (src.count(old), name)); bad += 1; continue
    d = tempfile.mkdtemp()
    os.makedirs(os.path.join(d, "a", os.path.dirname(f))); os.makedirs(os.path.join(d, "b", os.path.dirname(f)))
    open(os.path.join(d, "a", f), "w").write(src); open(os.path.join(d, "b", f), "w").write(src.replace(old, new))
    p = subprocess.run(["diff", "-u", "a/" + f, "b/" + f], cwd=d, stdout=subprocess.PIPE, text=True)
    open(os.path.join(out, "%s.diff" % name), "w").write(p.stdout)
    shutil.rmtree(d)
print("%d mutants written, %d failed" % (len(M) - bad, bad))
