#!/bin/sh
# Re-record the replay files of the known findings from a current quick run (same signatures, current trace digests).
cd "$(dirname "$0")/.."
./check C02 --tier quick > /dev/null 2>&1
/usr/bin/python3 - <<'PY'
import json, glob, re, shutil
ents = json.load(open("known_findings.json"))
by = {}
for f in glob.glob("replays/C02-*-known*.json"):
    d = json.load(open(f))
    by[d["signature"]] = f
for e in ents:
    if e.get("status") == "known" and e["signature"] in by:
        shutil.copy(by[e["signature"]], e["replay"])
        print("refreshed", e["replay"])
PY
