#!/bin/sh
# Apply a kept seeded change to /repo, run one check against it, and undo it straight afterwards.
#   tools/seeded_run.sh <seeded-id> <property> [extra check args]
sid=$1; prop=$2; shift 2
cd "$(dirname "$0")/.."
if [ -n "$(git -C /repo status --porcelain --untracked-files=no)" ]; then echo "/repo is not clean"; exit 2; fi
trap 'git -C /repo checkout -- . ' EXIT INT TERM
git -C /repo apply "$PWD/seeded/$sid/patch.diff" || exit 2
./check $prop "$@"
rc=$?
echo "seeded $sid vs $prop: rc=$rc"
exit $rc
