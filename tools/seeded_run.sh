#!/bin/sh
# Run one check against a kept seeded change and undo the change straight afterwards.
#   tools/seeded_run.sh <seeded-id|path/to/patch.diff> <property> [extra check args]
# Default: apply to /repo (git -C /repo apply), run, git -C /repo checkout -- .
# With SEEDED_SCRATCH=1: work on a scratch copy of /repo under /dev/shm instead (BLSIM_REPO/BLSIM_BUILD_DIR),
# so that /repo is not disturbed while other runs are using it.
sid=$1; prop=$2; shift 2
cd "$(dirname "$0")/.."
patch="$PWD/seeded/$sid/patch.diff"
[ -f "$sid" ] && patch=$(readlink -f "$sid")
if [ -n "$SEEDED_SCRATCH" ]; then
  S=/dev/shm/blsim-seeded-$$
  mkdir -p $S/repo
  (cd /repo && git archive HEAD) | tar -x -C $S/repo
  (cd $S/repo && git init -q . && git apply "$patch") || { rm -rf $S; exit 2; }
  BLSIM_REPO=$S/repo BLSIM_BUILD_DIR=$S/build ./check $prop "$@"
  rc=$?
  rm -rf $S
  echo "seeded $sid vs $prop: rc=$rc (scratch copy)"
  exit $rc
fi
if [ -n "$(git -C /repo status --porcelain --untracked-files=no)" ]; then echo "/repo is not clean"; exit 2; fi
trap 'git -C /repo checkout -- . ' EXIT INT TERM
git -C /repo apply "$patch" || exit 2
./check $prop "$@"
rc=$?
echo "seeded $sid vs $prop: rc=$rc"
exit $rc
