#!/usr/bin/env python3
"""Write the prompts for one round of independent seeded changes (one fresh sub-agent per claimed property).
   tools/make_round_prompts.py <round-letter> [outdir]
Each prompt holds the property's text, the path of that agent's own scratch worktree and one-line descriptions of the ideas
already used for that property - nothing from /verif."""
import glob, json, os, sys
letter = sys.argv[1]
out = sys.argv[2] if len(sys.argv) > 2 else "/tmp/agent_prompts"
here = os.path.dirname(os.path.dirname(os.path.abspath(__file__)))
props = {}
for line in open(os.path.join(here, "properties.jsonl")):
    if line.strip():
        p = json.loads(line)
        props[p["id"]] = p
man = json.load(open(os.path.join(here, "MANIFEST.json")))
claimed = sorted({c["property_id"] for c in man["checks"]})
template = open(os.path.join(out, "C08g.txt")).read()
p8 = props["C08"]
head, rest = template.split("  id: C08\n", 1)
_mid, tail = rest.split("YOUR TASK:", 1)
tail = "YOUR TASK:" + tail
tail_a, tail_b = tail.split("Earlier contributors already used the following ideas;", 1)
tail_b = tail_b.split("Be inventive:", 1)[1]
os.makedirs(out, exist_ok=True)
for pid in claimed:
    p = props[pid]
    wt = "/tmp/seed%s-%s" % (letter, pid)
    ideas = []
    for m in sorted(glob.glob(os.path.join(here, "seeded", pid + "-*", "meta.json"))):
        ideas.append(json.load(open(m))["change"][:170])
    txt = head.replace("/tmp/seedg-C08", wt)
    txt += "  id: %s\n  title: %s\n  statement: %s\n  quantifier: %s\n  code anchors (where the mechanism lives): %s\n\n" % (
        pid, p["title"], p["statement"], p["quantifier"]["text"],
        json.dumps([{"name": a["name"], "where": a["where"]} for a in p["anchors"].get("mechanism", [])]))
    txt += tail_a.replace("/tmp/seedg-C08", wt).replace("C08", pid)
    txt += "Earlier contributors already used the following ideas; pick a DIFFERENT mechanism (a different function or file if you can, and a different kind of trigger):\n"
    for i, idea in enumerate(ideas, 1):
        txt += "  %d. %s\n" % (i, idea)
    txt += "Be inventive:" + tail_b
    open(os.path.join(out, "%s%s.txt" % (pid, letter)), "w").write(txt)
    print(pid, len(ideas), "ideas")
