#!/usr/bin/python3
"""Regenerate /verif/MANIFEST.json from the property drivers that exist."""
import json
import os
import sys

HERE = os.path.dirname(os.path.dirname(os.path.abspath(__file__)))
sys.path.insert(0, os.path.join(HERE, "sim"))
import importlib

NA = {
    "C09": "compile-and-run equivalence of edited programs is a pure program-translation property (oracle: rustc + log crate semantics); no fault, schedule, crash point or history enters, so there is nothing for a simulator to decide",
    "C10": "grammar completeness is a pure function of one file's text; no filesystem result, signal, enumeration order or history can change the answer (grammar-based testing, not simulation)",
    "C11": "grammar soundness on decoys is a pure function of one file's text; nothing for a scheduler or fault injector to act on",
    "C12": "a predicate on a string prefix (anchored regex + u32 parse); pure function of its input",
    "C13": "shape and placement of the structured ref key-value is a pure function of one statement's text",
    "C14": "directive scope is a pure function of the lines preceding a statement",
}
TEXT = {}
props = [json.loads(l) for l in open(os.path.join(HERE, "properties.jsonl"))]
checks = []
na = []
for p in props:
    pid = p["id"]
    if pid in NA:
        na.append({"property_id": pid, "reason": NA[pid]})
        continue
    try:
        mod = importlib.import_module("blsim.props.%s" % pid)
    except ImportError:
        na.append({"property_id": pid, "reason": "claimed in DESIGN.md but its driver is not built yet in this commit"})
        continue
    checks.append({
        "property_id": pid,
        "quick_cmd": "./check %s --tier quick" % pid,
        "thorough_cmd": "./check %s --tier thorough" % pid,
        "evidence_file": "/verif/evidence/%s.json" % pid,
        "replay_cmd_template": "./check --replay {path}",
        "engine": "blsim",
        "level_claimed": {"category": mod.LEVEL, "text": mod.LEVEL_TEXT, "design_ref": "DESIGN.md section 5 (%s)" % pid},
        "level_note": mod.LEVEL_NOTE,
        "technique": mod.TECHNIQUE,
    })
fixes = []
try:
    kf = json.load(open(os.path.join(HERE, "known_findings.json")))
    fixes = sorted({k["commit"] for k in kf if k.get("status") == "fixed" and k.get("commit")})
except Exception:
    pass
man = {
    "version": 1,
    "setup_cmd": "./setup.sh",
    "hooks": {
        "guard": "none",
        "enable": "no hook or instrumentation is added to /repo: the seam is /verif/sim/shim/simshim.c, LD_PRELOADed into the unmodified release binary that every check rebuilds from /repo's working tree (cargo build --release --offline)",
        "baseline_off_cmd": "cd /repo && cargo test --workspace --no-fail-fast --offline",
        "source_commits": [],
        "add_only": True,
    },
    "engines": [{"name": "blsim", "path": "/verif/sim", "serves_properties": [c["property_id"] for c in checks],
                 "kind_free_text": "deterministic simulation with fault injection at the libc boundary: LD_PRELOAD seam (C) numbering and perturbing every filesystem operation of the real binary, seeded Python orchestrator generating worlds and run/edit histories, record-then-perturb fault placement, reference model and oracles, minimiser and exact replay"}],
    "checks": checks,
    "not_applicable": na,
    "notes": "Every check rebuilds the release binary from /repo's working tree, runs on /dev/shm scratch worlds, honours VERIF_SEED/VERIF_TIER, prints VIOLATION/KNOWN-FINDING lines as specified and exits 0/1 (2 = harness error). No hook commits exist in /repo; the only commits made there are the unguarded repairs of genuine defects ('fix:' commits " + ", ".join(fixes) + ", listed as 'fixed' in known_findings.json), after each of which the unedited suite passes. See DESIGN.md.",
}
json.dump(man, open(os.path.join(HERE, "MANIFEST.json"), "w"), indent=1)
print("checks:", [c["property_id"] for c in checks], "n/a:", [n["property_id"] for n in na])
