#!/bin/sh
# Reach measurement: which lines of /repo/src do the checks' workloads execute?  Builds a coverage-instrumented binary with
# the nightly toolchain (its llvm-tools match), runs a slice of every check against it, and prints the uncovered regions of
# the non-test code.  Not a check: it decides nothing, it shows where the workloads do not go.
#   tools/coverage.sh [cases-per-property, default 150]
N=${1:-150}
cd "$(dirname "$0")/.."
D=/dev/shm/blsim-cov-$$
mkdir -p $D/prof $D/build
TOOLS=$(dirname $(find ~/.rustup/toolchains/nightly-x86_64-unknown-linux-gnu -name llvm-profdata | head -1))
(cd /repo && CARGO_NET_OFFLINE=true RUSTFLAGS="-C instrument-coverage" cargo +nightly build --release --offline --bin breadlog --target-dir $D/build/target 2>&1 | tail -1)
for p in C01 C02 C03 C04 C05 C06 C07 C08 C15 C16 C17 C18; do
  BLSIM_SKIP_BUILD=1 BLSIM_BUILD_DIR=$D/build BLSIM_REPO=/repo-cov BLSIM_PROFILE_DIR=$D/prof ./check $p --cases $N --no-shrink 2>&1 | tail -1 | cut -c1-120
done
$TOOLS/llvm-profdata merge -sparse $D/prof/*.profraw -o $D/all.profdata 2>/dev/null
mkdir -p sensitivity
$TOOLS/llvm-cov report $D/build/target/release/breadlog -instr-profile=$D/all.profdata --ignore-filename-regex='(\.cargo|rustc|registry|rustup)' 2>/dev/null | cut -c1-24,120-400 > sensitivity/coverage.txt
cat sensitivity/coverage.txt
$TOOLS/llvm-cov show $D/build/target/release/breadlog -instr-profile=$D/all.profdata --ignore-filename-regex='(\.cargo|rustc|registry)' --show-line-counts-or-regions 2>/dev/null > sensitivity/coverage_show.txt
rm -rf $D
