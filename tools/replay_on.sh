#!/bin/sh
# Replay a recorded violation against another commit of /repo (e.g. the commit before a "fix:"), in a scratch copy.
#   tools/replay_on.sh <commit> <replay.json>
c=$1; r=$(readlink -f "$2")
cd "$(dirname "$0")/.."
S=/dev/shm/blsim-replayon-$$
mkdir -p $S/repo
(cd /repo && git archive $c) | tar -x -C $S/repo || exit 2
BLSIM_REPO=$S/repo BLSIM_BUILD_DIR=$S/build ./check --replay "$r"
rc=$?
rm -rf $S
exit $rc
