#!/bin/sh
# Build the seam and pre-build /repo's release binary (offline). Idempotent.
set -e
cd "$(dirname "$0")"
mkdir -p .build evidence replays
gcc -O2 -w -shared -fPIC -o .build/simshim.so sim/shim/simshim.c -ldl -lpthread
/usr/bin/python3 -m compileall -q sim/blsim >/dev/null
CARGO_NET_OFFLINE=true cargo build --release --offline --manifest-path /repo/Cargo.toml --target-dir .build/target --bin breadlog
echo setup-ok
