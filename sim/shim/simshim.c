/*
 * simshim.c - the seam of the Breadlog simulator.
 *
 * LD_PRELOAD interposer loaded into the unmodified release binary built from /repo.
 * It numbers every filesystem operation on a "world" path (below $SIM_ROOT), writes an
 * ordered trace to $SIM_TRACE, and executes the fault / kill / signal plan in $SIM_PLAN.
 * It also puts directory enumeration order, getrandom and the wall clock behind the plan's
 * PRNG so that one plan is one exactly repeatable execution.
 *
 * Plan file (text, one directive per line):
 *   seed <u64>
 *   perm <0|1>                         permute readdir order (sorted by name first)
 *   fault k=<n> act=<action> [errno=<n>] [frac=<f>] [signo=<n>]
 *   fault from=<n> kinds=<K1,K2,..> [pre=<relpath prefix>] [nth=<n>] act=...   (class-addressed / persistent)
 * Actions: fail short eintr torn kill_before kill_after kill_mid sig_before sig_after
 *
 * Trace (tab separated):  k KIND path flags req ret errno fired
 *   un-numbered events have "-" as k:  CLOSE, SIGACTION, SIGNAL, GETRANDOM, CONTENDED, INIT
 */
#define _GNU_SOURCE
#include <dirent.h>
#include <dlfcn.h>
#include <errno.h>
#include <fcntl.h>
#include <limits.h>
#include <pthread.h>
#include <signal.h>
#include <stdarg.h>
#include <stdint.h>
#include <stdio.h>
#include <stdlib.h>
#include <string.h>
#include <sys/stat.h>
#include <sys/syscall.h>
#include <sys/time.h>
#include <sys/types.h>
#include <sys/uio.h>
#include <time.h>
#include <unistd.h>

#define FD_MAX 4096
#define MAX_FAULTS 64
#define MAX_DIRS 64

enum { A_FAIL = 1, A_SHORT, A_EINTR, A_TORN, A_KILL_BEFORE, A_KILL_AFTER, A_KILL_MID, A_SIG_BEFORE, A_SIG_AFTER, A_STALL };

struct fault {
    long k;            /* exact op number, or 0 */
    long from;         /* class addressed: ops >= from */
    char kinds[128];   /* ",KIND1,KIND2," or empty = any */
    char pre[128];     /* rel path prefix or empty */
    long nth;          /* fire only at the nth class match (0 = every match) */
    long seen;
    int act;
    int err;
    int signo;
    double frac;
    char name[24];
};

static struct fault faults[MAX_FAULTS];
static int nfaults = 0;
static int perm_readdir = 0;
static long sim_clock_base = 1790000000L; /* $SIM_CLOCK_BASE: where the simulated wall clock starts (seconds) */
static long jitter_us = 0;         /* $SIM_JITTER_US: every operation is preceded by a pause of 0..jitter_us microseconds derived
                                      from its number - threads of the process under test drift against each other */
static int dtype_unknown = 0;      /* $SIM_DT_UNKNOWN: readdir reports d_type DT_UNKNOWN, as some file systems do */
static char mount_pre[512];        /* "mount <rel>": that directory of the world is the root of another file system */
static size_t mount_len = 0;
static long stdout_sig_nth = 0;    /* "stdout_sig_at <n> <signo>": the signal arrives while the n-th write to fd 1 is in progress */
static int stdout_sig_signo = 0;
static long stdout1_writes = 0;
static int stdout_dies_with_signal = 0; /* "stdout_sig 1": from the first raised signal on, writes to fd 1/2 fail with EPIPE
                                          (the reader of the pipe got the same Ctrl-C and is gone) */
static volatile int signal_raised = 0;
static long stdout_fail_after = 0; /* the n-th and every later write to fd 1/2 fails with EPIPE (0 = never) */
static long stdout_writes = 0;
static uint64_t rng_state = 0x9E3779B97F4A7C15ULL;

static char sim_root[PATH_MAX];
static size_t sim_root_len = 0;
static int trace_fd = -1;
static int active = 0;
static int inited = 0;
static long opk = 0;
static pthread_mutex_t mu = PTHREAD_MUTEX_INITIALIZER;

static char *fdpath[FD_MAX];
static int fd_pending_err[FD_MAX];

struct dirbuf {
    DIR *d;
    struct dirent64 *ents;
    int n, pos;
    char rel[PATH_MAX];
};
static struct dirbuf dirs[MAX_DIRS];

/* ---- real functions ---- */
#define REAL(name) static __typeof__(name) *real_##name
static int (*real_open)(const char *, int, ...);
static int (*real_open64)(const char *, int, ...);
static int (*real_openat)(int, const char *, int, ...);
static ssize_t (*real_read)(int, void *, size_t);
static ssize_t (*real_write)(int, const void *, size_t);
static ssize_t (*real_pread64)(int, void *, size_t, off_t);
static ssize_t (*real_pwrite64)(int, const void *, size_t, off_t);
static ssize_t (*real_readv)(int, const struct iovec *, int);
static ssize_t (*real_writev)(int, const struct iovec *, int);
static int (*real_close)(int);
static int (*real_rename)(const char *, const char *);
static int (*real_renameat)(int, const char *, int, const char *);
static int (*real_renameat2)(int, const char *, int, const char *, unsigned int);
static int (*real_unlink)(const char *);
static int (*real_unlinkat)(int, const char *, int);
static int (*real_mkdir)(const char *, mode_t);
static int (*real_mkdirat)(int, const char *, mode_t);
static int (*real_rmdir)(const char *);
static int (*real_link)(const char *, const char *);
static int (*real_linkat)(int, const char *, int, const char *, int);
static int (*real_symlink)(const char *, const char *);
static int (*real_symlinkat)(const char *, int, const char *);
static int (*real_truncate)(const char *, off_t);
static int (*real_ftruncate)(int, off_t);
static int (*real_chmod)(const char *, mode_t);
static int (*real_fchmod)(int, mode_t);
static int (*real_fchmodat)(int, const char *, mode_t, int);
static int (*real_chown)(const char *, uid_t, gid_t);
static int (*real_utimensat)(int, const char *, const struct timespec *, int);
static int (*real_futimens)(int, const struct timespec *);
static int (*real_fallocate)(int, int, off_t, off_t);
static int (*real_posix_fallocate)(int, off_t, off_t);
static int (*real_fsync)(int);
static int (*real_fdatasync)(int);
static int (*real_stat)(const char *, struct stat *);
static int (*real_lstat)(const char *, struct stat *);
static int (*real_fstatat)(int, const char *, struct stat *, int);
static int (*real_statx)(int, const char *, int, unsigned int, void *);
static int (*real_access)(const char *, int);
static ssize_t (*real_readlink)(const char *, char *, size_t);
static char *(*real_realpath)(const char *, char *);
static DIR *(*real_opendir)(const char *);
static DIR *(*real_fdopendir)(int);
static struct dirent64 *(*real_readdir64)(DIR *);
static int (*real_closedir)(DIR *);
static ssize_t (*real_copy_file_range)(int, off_t *, int, off_t *, size_t, unsigned int);
static ssize_t (*real_sendfile)(int, int, off_t *, size_t);
static int (*real_sigaction)(int, const struct sigaction *, struct sigaction *);
static sighandler_t (*real_signal)(int, sighandler_t);
static long (*real_syscall)(long, ...);
static int (*real_clock_gettime)(clockid_t, struct timespec *);
static ssize_t (*real_getrandom)(void *, size_t, unsigned int);

static void *must_sym(const char *n)
{
    void *p = dlsym(RTLD_NEXT, n);
    return p;
}

static uint64_t rng_next(void)
{
    uint64_t x = rng_state;
    x ^= x << 13;
    x ^= x >> 7;
    x ^= x << 17;
    rng_state = x;
    return x * 0x2545F4914F6CDD1DULL;
}

static void trace_raw(const char *s, size_t n)
{
    if (trace_fd < 0)
        return;
    while (n > 0) {
        ssize_t w = real_write(trace_fd, s, n);
        if (w <= 0) {
            if (w < 0 && errno == EINTR)
                continue;
            return;
        }
        s += w;
        n -= (size_t)w;
    }
}

static void tracef(const char *fmt, ...)
{
    char buf[PATH_MAX * 2 + 256];
    va_list ap;
    int saved = errno;
    va_start(ap, fmt);
    int n = vsnprintf(buf, sizeof buf, fmt, ap);
    va_end(ap);
    if (n < 0)
        return;
    if ((size_t)n >= sizeof buf)
        n = sizeof buf - 1;
    trace_raw(buf, (size_t)n);
    errno = saved;
}

static int act_of(const char *s)
{
    if (!strcmp(s, "fail")) return A_FAIL;
    if (!strcmp(s, "short")) return A_SHORT;
    if (!strcmp(s, "eintr")) return A_EINTR;
    if (!strcmp(s, "torn")) return A_TORN;
    if (!strcmp(s, "kill_before")) return A_KILL_BEFORE;
    if (!strcmp(s, "kill_after")) return A_KILL_AFTER;
    if (!strcmp(s, "kill_mid")) return A_KILL_MID;
    if (!strcmp(s, "sig_before")) return A_SIG_BEFORE;
    if (!strcmp(s, "sig_after")) return A_SIG_AFTER;
    if (!strcmp(s, "stall")) return A_STALL;
    return 0;
}

static void load_plan(const char *path)
{
    int fd = real_open(path, O_RDONLY | O_CLOEXEC);
    if (fd < 0)
        return;
    static char buf[65536];
    size_t len = 0;
    for (;;) {
        ssize_t r = real_read(fd, buf + len, sizeof buf - 1 - len);
        if (r <= 0)
            break;
        len += (size_t)r;
        if (len >= sizeof buf - 1)
            break;
    }
    buf[len] = 0;
    real_close(fd);
    char *save1 = NULL;
    for (char *line = strtok_r(buf, "\n", &save1); line; line = strtok_r(NULL, "\n", &save1)) {
        if (!strncmp(line, "seed ", 5)) {
            rng_state = strtoull(line + 5, NULL, 10);
            if (rng_state == 0)
                rng_state = 0x9E3779B97F4A7C15ULL;
        } else if (!strncmp(line, "perm ", 5)) {
            perm_readdir = atoi(line + 5);
        } else if (!strncmp(line, "stdout_fail ", 12)) {
            stdout_fail_after = atol(line + 12);
        } else if (!strncmp(line, "stdout_sig_at ", 14)) {
            sscanf(line + 14, "%ld %d", &stdout_sig_nth, &stdout_sig_signo);
        } else if (!strncmp(line, "stdout_sig ", 11)) {
            stdout_dies_with_signal = atoi(line + 11);
        } else if (!strncmp(line, "mount ", 6)) {
            snprintf(mount_pre, sizeof mount_pre, "%s", line + 6);
            mount_len = strlen(mount_pre);
        } else if (!strncmp(line, "fault ", 6) && nfaults < MAX_FAULTS) {
            struct fault *f = &faults[nfaults];
            memset(f, 0, sizeof *f);
            f->frac = 0.5;
            f->err = EIO;
            f->signo = SIGTERM;
            char *save2 = NULL;
            for (char *tok = strtok_r(line + 6, " ", &save2); tok; tok = strtok_r(NULL, " ", &save2)) {
                char *eq = strchr(tok, '=');
                if (!eq)
                    continue;
                *eq = 0;
                const char *v = eq + 1;
                if (!strcmp(tok, "k")) f->k = atol(v);
                else if (!strcmp(tok, "from")) f->from = atol(v);
                else if (!strcmp(tok, "nth")) f->nth = atol(v);
                else if (!strcmp(tok, "kinds")) snprintf(f->kinds, sizeof f->kinds, ",%s,", v);
                else if (!strcmp(tok, "pre")) snprintf(f->pre, sizeof f->pre, "%s", v);
                else if (!strcmp(tok, "errno")) f->err = atoi(v);
                else if (!strcmp(tok, "signo")) f->signo = atoi(v);
                else if (!strcmp(tok, "frac")) f->frac = atof(v);
                else if (!strcmp(tok, "act")) {
                    f->act = act_of(v);
                    snprintf(f->name, sizeof f->name, "%s", v);
                }
            }
            if (f->act && (f->k > 0 || f->from > 0))
                nfaults++;
        }
    }
}

static void do_init(void)
{
    if (inited)
        return;
    inited = 1;
    real_open = must_sym("open");
    real_open64 = must_sym("open64");
    real_openat = must_sym("openat");
    real_read = must_sym("read");
    real_write = must_sym("write");
    real_pread64 = must_sym("pread64");
    real_pwrite64 = must_sym("pwrite64");
    real_readv = must_sym("readv");
    real_writev = must_sym("writev");
    real_close = must_sym("close");
    real_rename = must_sym("rename");
    real_renameat = must_sym("renameat");
    real_renameat2 = must_sym("renameat2");
    real_unlink = must_sym("unlink");
    real_unlinkat = must_sym("unlinkat");
    real_mkdir = must_sym("mkdir");
    real_mkdirat = must_sym("mkdirat");
    real_rmdir = must_sym("rmdir");
    real_link = must_sym("link");
    real_linkat = must_sym("linkat");
    real_symlink = must_sym("symlink");
    real_symlinkat = must_sym("symlinkat");
    real_truncate = must_sym("truncate64");
    real_ftruncate = must_sym("ftruncate64");
    real_chmod = must_sym("chmod");
    real_fchmod = must_sym("fchmod");
    real_fchmodat = must_sym("fchmodat");
    real_chown = must_sym("chown");
    real_utimensat = must_sym("utimensat");
    real_futimens = must_sym("futimens");
    real_fallocate = must_sym("fallocate64");
    real_posix_fallocate = must_sym("posix_fallocate64");
    real_fsync = must_sym("fsync");
    real_fdatasync = must_sym("fdatasync");
    real_stat = must_sym("stat64");
    real_lstat = must_sym("lstat64");
    real_fstatat = must_sym("fstatat64");
    real_statx = must_sym("statx");
    real_access = must_sym("access");
    real_readlink = must_sym("readlink");
    real_realpath = must_sym("realpath");
    real_opendir = must_sym("opendir");
    real_fdopendir = must_sym("fdopendir");
    real_readdir64 = must_sym("readdir64");
    real_closedir = must_sym("closedir");
    real_copy_file_range = must_sym("copy_file_range");
    real_sendfile = must_sym("sendfile64");
    real_sigaction = must_sym("sigaction");
    real_signal = must_sym("signal");
    real_syscall = must_sym("syscall");
    real_clock_gettime = must_sym("clock_gettime");
    real_getrandom = must_sym("getrandom");

    const char *root = getenv("SIM_ROOT");
    const char *trace = getenv("SIM_TRACE");
    const char *plan = getenv("SIM_PLAN");
    if (!root || !trace)
        return;
    if (getenv("SIM_JITTER_US"))
        jitter_us = atol(getenv("SIM_JITTER_US"));
    if (getenv("SIM_DT_UNKNOWN"))
        dtype_unknown = atoi(getenv("SIM_DT_UNKNOWN"));
    if (getenv("SIM_CLOCK_BASE"))
        sim_clock_base = atol(getenv("SIM_CLOCK_BASE"));
    snprintf(sim_root, sizeof sim_root, "%s", root);
    sim_root_len = strlen(sim_root);
    while (sim_root_len > 1 && sim_root[sim_root_len - 1] == '/')
        sim_root[--sim_root_len] = 0;
    int fd = real_open(trace, O_WRONLY | O_CREAT | O_APPEND | O_CLOEXEC, 0644);
    if (fd < 0)
        return;
    int hi = fcntl(fd, F_DUPFD_CLOEXEC, 1000);
    if (hi >= 0) {
        real_close(fd);
        fd = hi;
    }
    trace_fd = fd;
    if (plan && *plan)
        load_plan(plan);
    active = 1;
    tracef("-\tINIT\t%s\t%d\t%d\t0\t0\t-\n", sim_root, nfaults, perm_readdir);
}

__attribute__((constructor)) static void shim_ctor(void) { do_init(); }

/* ---- path handling ---- */

/* lexical normalisation of an absolute path into out */
static void normalise(const char *in, char *out, size_t outsz)
{
    char tmp[PATH_MAX];
    snprintf(tmp, sizeof tmp, "%s", in);
    char *parts[PATH_MAX / 2];
    int np = 0;
    char *save = NULL;
    for (char *p = strtok_r(tmp, "/", &save); p; p = strtok_r(NULL, "/", &save)) {
        if (!strcmp(p, "."))
            continue;
        if (!strcmp(p, "..")) {
            if (np > 0)
                np--;
            continue;
        }
        parts[np++] = p;
    }
    size_t o = 0;
    if (np == 0) {
        snprintf(out, outsz, "/");
        return;
    }
    for (int i = 0; i < np; i++) {
        int n = snprintf(out + o, outsz - o, "/%s", parts[i]);
        if (n < 0 || (size_t)n >= outsz - o)
            break;
        o += (size_t)n;
    }
}

/* returns 1 and fills rel (path relative to the world root, "." for the root) if path is a world path */
static int world_at(int dirfd, const char *path, char *rel, size_t relsz)
{
    if (!active || !path)
        return 0;
    char abs[PATH_MAX * 2];
    if (path[0] == '/') {
        snprintf(abs, sizeof abs, "%s", path);
    } else {
        char base[PATH_MAX];
        if (dirfd == AT_FDCWD) {
            if (!getcwd(base, sizeof base))
                return 0;
        } else {
            if (dirfd >= 0 && dirfd < FD_MAX && fdpath[dirfd]) {
                snprintf(base, sizeof base, "%s/%s", sim_root, fdpath[dirfd]);
            } else {
                char link[64];
                snprintf(link, sizeof link, "/proc/self/fd/%d", dirfd);
                ssize_t n = real_readlink(link, base, sizeof base - 1);
                if (n <= 0)
                    return 0;
                base[n] = 0;
            }
        }
        snprintf(abs, sizeof abs, "%s/%s", base, path);
    }
    char norm[PATH_MAX];
    if (strstr(abs, "/..") && real_realpath) {
        /* ".." after a symlinked directory: lexical folding would name another place than the kernel resolves, so the
           directory part is resolved for real (the last component is kept as given: a symlink file stays the link) */
        char dirpart[PATH_MAX * 2], resolved[PATH_MAX];
        snprintf(dirpart, sizeof dirpart, "%s", abs);
        char *slash = strrchr(dirpart, '/');
        const char *last = "";
        if (slash && slash != dirpart) {
            *slash = 0;
            last = slash + 1;
        }
        if (slash && slash != dirpart && strcmp(last, "..") != 0 && strcmp(last, ".") != 0 && real_realpath(dirpart, resolved)) {
            char joined[PATH_MAX * 2];
            snprintf(joined, sizeof joined, "%s/%s", resolved, last);
            normalise(joined, norm, sizeof norm);
        } else if (real_realpath(abs, resolved)) {
            snprintf(norm, sizeof norm, "%s", resolved);
        } else {
            normalise(abs, norm, sizeof norm);
        }
    } else {
        normalise(abs, norm, sizeof norm);
    }
    if (strncmp(norm, sim_root, sim_root_len) != 0)
        return 0;
    if (norm[sim_root_len] == 0) {
        snprintf(rel, relsz, ".");
        return 1;
    }
    if (norm[sim_root_len] != '/')
        return 0;
    snprintf(rel, relsz, "%s", norm + sim_root_len + 1);
    return 1;
}

static int world_path(const char *path, char *rel, size_t relsz) { return world_at(AT_FDCWD, path, rel, relsz); }

/* simulated mount point: paths at or below it report another st_dev, renames across its boundary fail with EXDEV */
static int in_mount(const char *rel)
{
    return mount_len && !strncmp(rel, mount_pre, mount_len) && (rel[mount_len] == 0 || rel[mount_len] == '/');
}
#define MOUNT_DEV_XOR 0x5a00

static const char *fd_rel(int fd)
{
    if (!active || fd < 0 || fd >= FD_MAX)
        return NULL;
    return fdpath[fd];
}

static void fdtab_set(int fd, const char *rel)
{
    if (fd < 0 || fd >= FD_MAX)
        return;
    free(fdpath[fd]);
    fdpath[fd] = rel ? strdup(rel) : NULL;
    fd_pending_err[fd] = 0;
}

/* ---- operation bracket ---- */

struct opctx {
    long k;
    const char *kind;
    const char *path;
    struct fault *res; /* result-modifying fault (fail/short/eintr/torn/kill_mid) */
    int kill_after;
    int sig_after;
    char fired[128];
};

static void fired_add(struct opctx *c, const struct fault *f)
{
    size_t l = strlen(c->fired);
    snprintf(c->fired + l, sizeof c->fired - l, "%s%s", l ? "," : "", f->name);
}

static void die_now(void)
{
    kill(getpid(), SIGKILL);
    for (;;)
        pause();
}

/* take the lock, number the op, run "before" actions */
static void op_begin(struct opctx *c, const char *kind, const char *path)
{
    if (jitter_us > 0) {
        uint64_t h = ((uint64_t)(opk + 1) * 0x9E3779B97F4A7C15ULL) ^ rng_state;
        h ^= h >> 29;
        struct timespec ts = {0, (long)(h % (uint64_t)jitter_us) * 1000L};
        nanosleep(&ts, NULL);
    }
    if (pthread_mutex_trylock(&mu) != 0) {
        pthread_mutex_lock(&mu);
        tracef("-\tCONTENDED\t%s\t0\t0\t0\t0\t-\n", path);
    }
    memset(c, 0, sizeof *c);
    c->k = ++opk;
    c->kind = kind;
    c->path = path;
    char kk[40];
    snprintf(kk, sizeof kk, ",%s,", kind);
    int sig_before = 0, kill_before = 0;
    long stall_ms = 0;
    for (int i = 0; i < nfaults; i++) {
        struct fault *f = &faults[i];
        int hit = 0;
        if (f->k > 0) {
            hit = (f->k == c->k);
        } else if (f->from > 0 && c->k >= f->from) {
            if ((f->kinds[0] == 0 || strstr(f->kinds, kk)) &&
                (f->pre[0] == 0 || strncmp(path, f->pre, strlen(f->pre)) == 0)) {
                f->seen++;
                hit = (f->nth == 0 || f->seen == f->nth);
            }
        }
        if (!hit)
            continue;
        switch (f->act) {
        case A_SIG_BEFORE:
            sig_before = f->signo;
            fired_add(c, f);
            break;
        case A_SIG_AFTER:
            c->sig_after = f->signo;
            fired_add(c, f);
            break;
        case A_KILL_BEFORE:
            kill_before = 1;
            fired_add(c, f);
            break;
        case A_KILL_AFTER:
            c->kill_after = 1;
            fired_add(c, f);
            break;
        case A_STALL:
            stall_ms = (long)(f->frac * 1000.0);
            fired_add(c, f);
            break;
        default:
            if (!c->res) {
                c->res = f;
                /* fired is recorded by the op itself when the action applies */
            }
            break;
        }
    }
    if (sig_before) {
        tracef("-\tSIGNAL\t%s\t%d\t%ld\t0\t0\tbefore\n", path, sig_before, c->k);
        signal_raised = 1;
        raise(sig_before);
    }
    if (kill_before) {
        tracef("%ld\t%s\t%s\t0\t0\t0\t0\t%s\n", c->k, kind, path, c->fired);
        die_now();
    }
    if (stall_ms > 0) {
        /* a stalled operation (slow storage): the call simply takes this long; frac carries the seconds */
        struct timespec ts = {stall_ms / 1000, (stall_ms % 1000) * 1000000L};
        nanosleep(&ts, NULL);
    }
}

static void op_end(struct opctx *c, long flags, long req, long ret, int err)
{
    tracef("%ld\t%s\t%s\t%lx\t%ld\t%ld\t%d\t%s\n", c->k, c->kind, c->path, flags, req, ret, ret < 0 ? err : 0,
           c->fired[0] ? c->fired : "-");
    if (c->kill_after)
        die_now();
    if (c->sig_after) {
        tracef("-\tSIGNAL\t%s\t%d\t%ld\t0\t0\tafter\n", c->path, c->sig_after, c->k);
        signal_raised = 1;
        raise(c->sig_after);
    }
    pthread_mutex_unlock(&mu);
    errno = err;
}

/* generic "fail" handling for ops that either happen or do not; returns 1 if the op must fail (errno set in *err) */
static int op_fail(struct opctx *c, int *err)
{
    if (c->res && (c->res->act == A_FAIL || c->res->act == A_EINTR)) {
        *err = c->res->act == A_EINTR ? EINTR : c->res->err;
        fired_add(c, c->res);
        return 1;
    }
    return 0;
}

/* ---- open family ---- */

static int open_common(int which, int dirfd, const char *path, int flags, mode_t mode)
{
    do_init();
    char rel[PATH_MAX];
    if (!world_at(dirfd, path, rel, sizeof rel)) {
        if (which == 2)
            return real_openat(dirfd, path, flags, mode);
        return real_open64(path, flags, mode);
    }
    int acc = flags & O_ACCMODE;
    int wr = (acc != O_RDONLY) || (flags & (O_CREAT | O_TRUNC));
    struct opctx c;
    op_begin(&c, wr ? "OPEN_W" : "OPEN_R", rel);
    int err = 0, ret;
    long existed = 0;
    if (wr) {
        struct stat st;
        char full[PATH_MAX * 2];
        snprintf(full, sizeof full, "%s/%s", sim_root, rel);
        existed = (real_lstat(full, &st) == 0);
    }
    if (op_fail(&c, &err)) {
        ret = -1;
    } else {
        if (which == 2)
            ret = real_openat(dirfd, path, flags, mode);
        else
            ret = real_open64(path, flags, mode);
        err = errno;
        if (ret >= 0)
            fdtab_set(ret, rel);
    }
    op_end(&c, (long)flags, existed, ret, err);
    return ret;
}

int open(const char *path, int flags, ...)
{
    mode_t mode = 0;
    if (flags & (O_CREAT | O_TMPFILE)) {
        va_list ap;
        va_start(ap, flags);
        mode = va_arg(ap, mode_t);
        va_end(ap);
    }
    return open_common(0, AT_FDCWD, path, flags, mode);
}

int open64(const char *path, int flags, ...)
{
    mode_t mode = 0;
    if (flags & (O_CREAT | O_TMPFILE)) {
        va_list ap;
        va_start(ap, flags);
        mode = va_arg(ap, mode_t);
        va_end(ap);
    }
    return open_common(1, AT_FDCWD, path, flags, mode);
}

int openat(int dirfd, const char *path, int flags, ...)
{
    mode_t mode = 0;
    if (flags & (O_CREAT | O_TMPFILE)) {
        va_list ap;
        va_start(ap, flags);
        mode = va_arg(ap, mode_t);
        va_end(ap);
    }
    return open_common(2, dirfd, path, flags, mode);
}

int openat64(int dirfd, const char *path, int flags, ...)
{
    mode_t mode = 0;
    if (flags & (O_CREAT | O_TMPFILE)) {
        va_list ap;
        va_start(ap, flags);
        mode = va_arg(ap, mode_t);
        va_end(ap);
    }
    return open_common(2, dirfd, path, flags, mode);
}

int creat(const char *path, mode_t mode) { return open_common(1, AT_FDCWD, path, O_CREAT | O_WRONLY | O_TRUNC, mode); }
int creat64(const char *path, mode_t mode) { return open_common(1, AT_FDCWD, path, O_CREAT | O_WRONLY | O_TRUNC, mode); }

int close(int fd)
{
    do_init();
    const char *rel = fd_rel(fd);
    if (!rel)
        return real_close(fd);
    pthread_mutex_lock(&mu);
    tracef("-\tCLOSE\t%s\t0\t0\t0\t0\t-\n", rel);
    fdtab_set(fd, NULL);
    int ret = real_close(fd);
    int err = errno;
    pthread_mutex_unlock(&mu);
    errno = err;
    return ret;
}

/* ---- read / write ---- */

static size_t frac_of(size_t n, double frac)
{
    if (n <= 1)
        return n;
    size_t m = (size_t)((double)n * frac);
    if (m < 1)
        m = 1;
    if (m >= n)
        m = n - 1;
    return m;
}

ssize_t read(int fd, void *buf, size_t n)
{
    do_init();
    const char *rel = fd_rel(fd);
    if (!rel)
        return real_read(fd, buf, n);
    struct opctx c;
    op_begin(&c, "READ", rel);
    int err = 0;
    ssize_t ret;
    if (op_fail(&c, &err)) {
        ret = -1;
    } else {
        size_t want = n;
        if (c.res && c.res->act == A_SHORT && n > 1) {
            want = frac_of(n, c.res->frac);
            fired_add(&c, c.res);
        }
        ret = real_read(fd, buf, want);
        err = errno;
    }
    op_end(&c, 0, (long)n, ret, err);
    return ret;
}

ssize_t pread64(int fd, void *buf, size_t n, off_t off)
{
    do_init();
    const char *rel = fd_rel(fd);
    if (!rel)
        return real_pread64(fd, buf, n, off);
    struct opctx c;
    op_begin(&c, "READ", rel);
    int err = 0;
    ssize_t ret;
    if (op_fail(&c, &err))
        ret = -1;
    else {
        ret = real_pread64(fd, buf, n, off);
        err = errno;
    }
    op_end(&c, 1, (long)n, ret, err);
    return ret;
}
ssize_t pread(int fd, void *buf, size_t n, off_t off) { return pread64(fd, buf, n, off); }

ssize_t readv(int fd, const struct iovec *iov, int cnt)
{
    do_init();
    const char *rel = fd_rel(fd);
    if (!rel)
        return real_readv(fd, iov, cnt);
    struct opctx c;
    op_begin(&c, "READ", rel);
    int err = 0;
    ssize_t ret;
    if (op_fail(&c, &err))
        ret = -1;
    else {
        ret = real_readv(fd, iov, cnt);
        err = errno;
    }
    op_end(&c, 2, (long)cnt, ret, err);
    return ret;
}

static ssize_t write_common(int fd, const void *buf, size_t n, const char *rel)
{
    struct opctx c;
    op_begin(&c, "WRITE", rel);
    int err = 0;
    ssize_t ret;
    if (fd_pending_err[fd]) {
        /* second half of a torn write: the previous write was cut short, this one reports the error */
        err = fd_pending_err[fd];
        fd_pending_err[fd] = 0;
        snprintf(c.fired, sizeof c.fired, "torn_err");
        ret = -1;
    } else if (op_fail(&c, &err)) {
        ret = -1;
    } else if (c.res && c.res->act == A_KILL_MID) {
        size_t part = frac_of(n, c.res->frac);
        fired_add(&c, c.res);
        ret = real_write(fd, buf, part);
        tracef("%ld\tWRITE\t%s\t0\t%ld\t%ld\t0\t%s\n", c.k, rel, (long)n, (long)ret, c.fired);
        die_now();
    } else {
        size_t want = n;
        if (c.res && (c.res->act == A_SHORT || c.res->act == A_TORN) && n > 1) {
            want = frac_of(n, c.res->frac);
            fired_add(&c, c.res);
            if (c.res->act == A_TORN)
                fd_pending_err[fd] = c.res->err;
        } else if (c.res && c.res->act == A_TORN) {
            /* nothing to tear in a 0/1-byte write: fail it outright */
            err = c.res->err;
            fired_add(&c, c.res);
            op_end(&c, 0, (long)n, -1, err);
            return -1;
        }
        ret = real_write(fd, buf, want);
        err = errno;
    }
    op_end(&c, 0, (long)n, ret, err);
    return ret;
}

ssize_t write(int fd, const void *buf, size_t n)
{
    do_init();
    const char *rel = fd_rel(fd);
    if (!rel) {
        if (active && stdout_sig_nth > 0 && fd == 1 && __sync_add_and_fetch(&stdout1_writes, 1) == stdout_sig_nth) {
            /* the caller is in the middle of printing a line (it holds whatever locks printing takes) */
            tracef("-\tSIGNAL\tstdout\t%d\t%ld\t0\t0\tinwrite\n", stdout_sig_signo, opk);
            signal_raised = 1;
            raise(stdout_sig_signo);
        }
        if (active && stdout_dies_with_signal && signal_raised && (fd == 1 || fd == 2)) {
            static int told = 0;
            if (!__sync_fetch_and_add(&told, 1))
                tracef("-\tSTDOUT_FAIL\tfd%d\t0\t0\t0\t32\tepipe\n", fd);
            errno = EPIPE;
            return -1;
        }
        if (active && stdout_fail_after > 0 && (fd == 1 || fd == 2)) {
            long c = __sync_add_and_fetch(&stdout_writes, 1);
            if (c >= stdout_fail_after) {
                if (c == stdout_fail_after)
                    tracef("-\tSTDOUT_FAIL\tfd%d\t0\t%ld\t0\t32\tepipe\n", fd, c);
                errno = EPIPE;
                return -1;
            }
        }
        return real_write(fd, buf, n);
    }
    return write_common(fd, buf, n, rel);
}

ssize_t pwrite64(int fd, const void *buf, size_t n, off_t off)
{
    do_init();
    const char *rel = fd_rel(fd);
    if (!rel)
        return real_pwrite64(fd, buf, n, off);
    struct opctx c;
    op_begin(&c, "WRITE", rel);
    int err = 0;
    ssize_t ret;
    if (op_fail(&c, &err))
        ret = -1;
    else {
        ret = real_pwrite64(fd, buf, n, off);
        err = errno;
    }
    op_end(&c, 1, (long)n, ret, err);
    return ret;
}
ssize_t pwrite(int fd, const void *buf, size_t n, off_t off) { return pwrite64(fd, buf, n, off); }

ssize_t writev(int fd, const struct iovec *iov, int cnt)
{
    do_init();
    const char *rel = fd_rel(fd);
    if (!rel)
        return real_writev(fd, iov, cnt);
    struct opctx c;
    op_begin(&c, "WRITE", rel);
    int err = 0;
    ssize_t ret;
    if (op_fail(&c, &err))
        ret = -1;
    else {
        ret = real_writev(fd, iov, cnt);
        err = errno;
    }
    op_end(&c, 2, (long)cnt, ret, err);
    return ret;
}

/* ---- simple path ops ---- */

#define SIMPLE_BEGIN(KIND, relexpr)                                                                                    \
    struct opctx c;                                                                                                    \
    op_begin(&c, KIND, relexpr);                                                                                       \
    int err = 0;                                                                                                       \
    long ret;

int rename(const char *a, const char *b)
{
    do_init();
    char ra[PATH_MAX], rb[PATH_MAX], both[PATH_MAX * 2 + 8];
    int wa = world_path(a, ra, sizeof ra), wb = world_path(b, rb, sizeof rb);
    if (!wa && !wb)
        return real_rename(a, b);
    snprintf(both, sizeof both, "%s -> %s", wa ? ra : a, wb ? rb : b);
    /* class-addressed faults match on the source path */
    struct opctx c;
    op_begin(&c, "RENAME", wa ? ra : rb);
    c.path = both;
    int err = 0;
    long ret;
    if (op_fail(&c, &err))
        ret = -1;
    else if (mount_len && in_mount(wa ? ra : "") != in_mount(wb ? rb : "")) {
        ret = -1;
        err = EXDEV;
    } else {
        ret = real_rename(a, b);
        err = errno;
    }
    op_end(&c, 0, 0, ret, err);
    return (int)ret;
}

static int renameat_common(int da, const char *a, int db, const char *b, unsigned int flags, int has2)
{
    do_init();
    char ra[PATH_MAX], rb[PATH_MAX], both[PATH_MAX * 2 + 8];
    int wa = world_at(da, a, ra, sizeof ra), wb = world_at(db, b, rb, sizeof rb);
    if (!wa && !wb)
        return has2 ? real_renameat2(da, a, db, b, flags) : real_renameat(da, a, db, b);
    snprintf(both, sizeof both, "%s -> %s", wa ? ra : a, wb ? rb : b);
    struct opctx c;
    op_begin(&c, "RENAME", wa ? ra : rb);
    c.path = both;
    int err = 0;
    long ret;
    if (op_fail(&c, &err))
        ret = -1;
    else if (mount_len && in_mount(wa ? ra : "") != in_mount(wb ? rb : "")) {
        ret = -1;
        err = EXDEV;
    } else {
        ret = has2 ? real_renameat2(da, a, db, b, flags) : real_renameat(da, a, db, b);
        err = errno;
    }
    op_end(&c, (long)flags, 0, ret, err);
    return (int)ret;
}
int renameat(int da, const char *a, int db, const char *b) { return renameat_common(da, a, db, b, 0, 0); }
int renameat2(int da, const char *a, int db, const char *b, unsigned int fl) { return renameat_common(da, a, db, b, fl, 1); }

int unlink(const char *p)
{
    do_init();
    char rel[PATH_MAX];
    if (!world_path(p, rel, sizeof rel))
        return real_unlink(p);
    SIMPLE_BEGIN("UNLINK", rel)
    if (op_fail(&c, &err))
        ret = -1;
    else {
        ret = real_unlink(p);
        err = errno;
    }
    op_end(&c, 0, 0, ret, err);
    return (int)ret;
}

int unlinkat(int d, const char *p, int fl)
{
    do_init();
    char rel[PATH_MAX];
    if (!world_at(d, p, rel, sizeof rel))
        return real_unlinkat(d, p, fl);
    SIMPLE_BEGIN((fl & AT_REMOVEDIR) ? "RMDIR" : "UNLINK", rel)
    if (op_fail(&c, &err))
        ret = -1;
    else {
        ret = real_unlinkat(d, p, fl);
        err = errno;
    }
    op_end(&c, fl, 0, ret, err);
    return (int)ret;
}

int mkdir(const char *p, mode_t m)
{
    do_init();
    char rel[PATH_MAX];
    if (!world_path(p, rel, sizeof rel))
        return real_mkdir(p, m);
    SIMPLE_BEGIN("MKDIR", rel)
    if (op_fail(&c, &err))
        ret = -1;
    else {
        ret = real_mkdir(p, m);
        err = errno;
    }
    op_end(&c, 0, 0, ret, err);
    return (int)ret;
}

int mkdirat(int d, const char *p, mode_t m)
{
    do_init();
    char rel[PATH_MAX];
    if (!world_at(d, p, rel, sizeof rel))
        return real_mkdirat(d, p, m);
    SIMPLE_BEGIN("MKDIR", rel)
    if (op_fail(&c, &err))
        ret = -1;
    else {
        ret = real_mkdirat(d, p, m);
        err = errno;
    }
    op_end(&c, 0, 0, ret, err);
    return (int)ret;
}

int rmdir(const char *p)
{
    do_init();
    char rel[PATH_MAX];
    if (!world_path(p, rel, sizeof rel))
        return real_rmdir(p);
    SIMPLE_BEGIN("RMDIR", rel)
    if (op_fail(&c, &err))
        ret = -1;
    else {
        ret = real_rmdir(p);
        err = errno;
    }
    op_end(&c, 0, 0, ret, err);
    return (int)ret;
}

int link(const char *a, const char *b)
{
    do_init();
    char ra[PATH_MAX], rb[PATH_MAX], both[PATH_MAX * 2 + 8];
    int wa = world_path(a, ra, sizeof ra), wb = world_path(b, rb, sizeof rb);
    if (!wa && !wb)
        return real_link(a, b);
    snprintf(both, sizeof both, "%s -> %s", wa ? ra : a, wb ? rb : b);
    struct opctx c;
    op_begin(&c, "LINK", wb ? rb : ra);
    c.path = both;
    int err = 0;
    long ret;
    if (op_fail(&c, &err))
        ret = -1;
    else {
        ret = real_link(a, b);
        err = errno;
    }
    op_end(&c, 0, 0, ret, err);
    return (int)ret;
}

int linkat(int da, const char *a, int db, const char *b, int fl)
{
    do_init();
    char ra[PATH_MAX], rb[PATH_MAX], both[PATH_MAX * 2 + 8];
    int wa = world_at(da, a, ra, sizeof ra), wb = world_at(db, b, rb, sizeof rb);
    if (!wa && !wb)
        return real_linkat(da, a, db, b, fl);
    snprintf(both, sizeof both, "%s -> %s", wa ? ra : a, wb ? rb : b);
    struct opctx c;
    op_begin(&c, "LINK", wb ? rb : ra);
    c.path = both;
    int err = 0;
    long ret;
    if (op_fail(&c, &err))
        ret = -1;
    else {
        ret = real_linkat(da, a, db, b, fl);
        err = errno;
    }
    op_end(&c, fl, 0, ret, err);
    return (int)ret;
}

int symlink(const char *target, const char *p)
{
    do_init();
    char rel[PATH_MAX];
    if (!world_path(p, rel, sizeof rel))
        return real_symlink(target, p);
    SIMPLE_BEGIN("SYMLINK", rel)
    if (op_fail(&c, &err))
        ret = -1;
    else {
        ret = real_symlink(target, p);
        err = errno;
    }
    op_end(&c, 0, 0, ret, err);
    return (int)ret;
}

int symlinkat(const char *target, int d, const char *p)
{
    do_init();
    char rel[PATH_MAX];
    if (!world_at(d, p, rel, sizeof rel))
        return real_symlinkat(target, d, p);
    SIMPLE_BEGIN("SYMLINK", rel)
    if (op_fail(&c, &err))
        ret = -1;
    else {
        ret = real_symlinkat(target, d, p);
        err = errno;
    }
    op_end(&c, 0, 0, ret, err);
    return (int)ret;
}

int truncate64(const char *p, off_t len)
{
    do_init();
    char rel[PATH_MAX];
    if (!world_path(p, rel, sizeof rel))
        return real_truncate(p, len);
    SIMPLE_BEGIN("TRUNCATE", rel)
    if (op_fail(&c, &err))
        ret = -1;
    else {
        ret = real_truncate(p, len);
        err = errno;
    }
    op_end(&c, 0, (long)len, ret, err);
    return (int)ret;
}
int truncate(const char *p, off_t len) { return truncate64(p, len); }

int ftruncate64(int fd, off_t len)
{
    do_init();
    const char *rel = fd_rel(fd);
    if (!rel)
        return real_ftruncate(fd, len);
    SIMPLE_BEGIN("TRUNCATE", rel)
    if (op_fail(&c, &err))
        ret = -1;
    else {
        ret = real_ftruncate(fd, len);
        err = errno;
    }
    op_end(&c, 1, (long)len, ret, err);
    return (int)ret;
}
int ftruncate(int fd, off_t len) { return ftruncate64(fd, len); }

int fallocate64(int fd, int mode, off_t off, off_t len)
{
    do_init();
    const char *rel = fd_rel(fd);
    if (!rel)
        return real_fallocate(fd, mode, off, len);
    SIMPLE_BEGIN("TRUNCATE", rel)
    if (op_fail(&c, &err))
        ret = -1;
    else {
        ret = real_fallocate(fd, mode, off, len);
        err = errno;
    }
    op_end(&c, 2, (long)len, ret, err);
    return (int)ret;
}
int fallocate(int fd, int mode, off_t off, off_t len) { return fallocate64(fd, mode, off, len); }

int posix_fallocate64(int fd, off_t off, off_t len)
{
    do_init();
    const char *rel = fd_rel(fd);
    if (!rel)
        return real_posix_fallocate(fd, off, len);
    SIMPLE_BEGIN("TRUNCATE", rel)
    if (op_fail(&c, &err))
        ret = err;
    else {
        ret = real_posix_fallocate(fd, off, len);
        err = errno;
    }
    op_end(&c, 3, (long)len, ret, err);
    return (int)ret;
}
int posix_fallocate(int fd, off_t off, off_t len) { return posix_fallocate64(fd, off, len); }

int chmod(const char *p, mode_t m)
{
    do_init();
    char rel[PATH_MAX];
    if (!world_path(p, rel, sizeof rel))
        return real_chmod(p, m);
    SIMPLE_BEGIN("CHMOD", rel)
    if (op_fail(&c, &err))
        ret = -1;
    else {
        ret = real_chmod(p, m);
        err = errno;
    }
    op_end(&c, (long)m, 0, ret, err);
    return (int)ret;
}

int fchmod(int fd, mode_t m)
{
    do_init();
    const char *rel = fd_rel(fd);
    if (!rel)
        return real_fchmod(fd, m);
    SIMPLE_BEGIN("CHMOD", rel)
    if (op_fail(&c, &err))
        ret = -1;
    else {
        ret = real_fchmod(fd, m);
        err = errno;
    }
    op_end(&c, (long)m, 1, ret, err);
    return (int)ret;
}

int fchmodat(int d, const char *p, mode_t m, int fl)
{
    do_init();
    char rel[PATH_MAX];
    if (!world_at(d, p, rel, sizeof rel))
        return real_fchmodat(d, p, m, fl);
    SIMPLE_BEGIN("CHMOD", rel)
    if (op_fail(&c, &err))
        ret = -1;
    else {
        ret = real_fchmodat(d, p, m, fl);
        err = errno;
    }
    op_end(&c, (long)m, 2, ret, err);
    return (int)ret;
}

int chown(const char *p, uid_t u, gid_t g)
{
    do_init();
    char rel[PATH_MAX];
    if (!world_path(p, rel, sizeof rel))
        return real_chown(p, u, g);
    SIMPLE_BEGIN("CHMOD", rel)
    if (op_fail(&c, &err))
        ret = -1;
    else {
        ret = real_chown(p, u, g);
        err = errno;
    }
    op_end(&c, 0, 3, ret, err);
    return (int)ret;
}

int utimensat(int d, const char *p, const struct timespec *ts, int fl)
{
    do_init();
    char rel[PATH_MAX];
    if (!p || !world_at(d, p, rel, sizeof rel))
        return real_utimensat(d, p, ts, fl);
    SIMPLE_BEGIN("CHMOD", rel)
    if (op_fail(&c, &err))
        ret = -1;
    else {
        ret = real_utimensat(d, p, ts, fl);
        err = errno;
    }
    op_end(&c, 0, 4, ret, err);
    return (int)ret;
}

int futimens(int fd, const struct timespec *ts)
{
    do_init();
    const char *rel = fd_rel(fd);
    if (!rel)
        return real_futimens(fd, ts);
    SIMPLE_BEGIN("CHMOD", rel)
    if (op_fail(&c, &err))
        ret = -1;
    else {
        ret = real_futimens(fd, ts);
        err = errno;
    }
    op_end(&c, 0, 5, ret, err);
    return (int)ret;
}

int fsync(int fd)
{
    do_init();
    const char *rel = fd_rel(fd);
    if (!rel)
        return real_fsync(fd);
    SIMPLE_BEGIN("FSYNC", rel)
    if (op_fail(&c, &err))
        ret = -1;
    else {
        ret = real_fsync(fd);
        err = errno;
    }
    op_end(&c, 0, 0, ret, err);
    return (int)ret;
}

int fdatasync(int fd)
{
    do_init();
    const char *rel = fd_rel(fd);
    if (!rel)
        return real_fdatasync(fd);
    SIMPLE_BEGIN("FSYNC", rel)
    if (op_fail(&c, &err))
        ret = -1;
    else {
        ret = real_fdatasync(fd);
        err = errno;
    }
    op_end(&c, 1, 0, ret, err);
    return (int)ret;
}

ssize_t copy_file_range(int fi, off_t *oi, int fo, off_t *oo, size_t len, unsigned int fl)
{
    do_init();
    const char *rel = fd_rel(fo);
    if (!rel)
        return real_copy_file_range(fi, oi, fo, oo, len, fl);
    SIMPLE_BEGIN("COPY", rel)
    if (op_fail(&c, &err))
        ret = -1;
    else {
        ret = real_copy_file_range(fi, oi, fo, oo, len, fl);
        err = errno;
    }
    op_end(&c, 0, (long)len, ret, err);
    return ret;
}

ssize_t sendfile64(int fo, int fi, off_t *off, size_t len)
{
    do_init();
    const char *rel = fd_rel(fo);
    if (!rel)
        return real_sendfile(fo, fi, off, len);
    SIMPLE_BEGIN("COPY", rel)
    if (op_fail(&c, &err))
        ret = -1;
    else {
        ret = real_sendfile(fo, fi, off, len);
        err = errno;
    }
    op_end(&c, 1, (long)len, ret, err);
    return ret;
}
ssize_t sendfile(int fo, int fi, off_t *off, size_t len) { return sendfile64(fo, fi, off, len); }

/* ---- stat family ---- */

int stat64(const char *p, struct stat64 *st)
{
    do_init();
    char rel[PATH_MAX];
    if (!world_path(p, rel, sizeof rel))
        return real_stat(p, (struct stat *)st);
    SIMPLE_BEGIN("STAT", rel)
    if (op_fail(&c, &err))
        ret = -1;
    else {
        ret = real_stat(p, (struct stat *)st);
        err = errno;
        if (ret == 0 && in_mount(rel))
            st->st_dev ^= MOUNT_DEV_XOR;
    }
    op_end(&c, 0, 0, ret, err);
    return (int)ret;
}
int stat(const char *p, struct stat *st) { return stat64(p, (struct stat64 *)st); }

int lstat64(const char *p, struct stat64 *st)
{
    do_init();
    char rel[PATH_MAX];
    if (!world_path(p, rel, sizeof rel))
        return real_lstat(p, (struct stat *)st);
    SIMPLE_BEGIN("STAT", rel)
    if (op_fail(&c, &err))
        ret = -1;
    else {
        ret = real_lstat(p, (struct stat *)st);
        err = errno;
        if (ret == 0 && in_mount(rel))
            st->st_dev ^= MOUNT_DEV_XOR;
    }
    op_end(&c, 1, 0, ret, err);
    return (int)ret;
}
int lstat(const char *p, struct stat *st) { return lstat64(p, (struct stat64 *)st); }

int fstatat64(int d, const char *p, struct stat64 *st, int fl)
{
    do_init();
    char rel[PATH_MAX];
    if (!p || p[0] == 0 || !world_at(d, p, rel, sizeof rel))
        return real_fstatat(d, p, (struct stat *)st, fl);
    SIMPLE_BEGIN("STAT", rel)
    if (op_fail(&c, &err))
        ret = -1;
    else {
        ret = real_fstatat(d, p, (struct stat *)st, fl);
        err = errno;
        if (ret == 0 && in_mount(rel))
            st->st_dev ^= MOUNT_DEV_XOR;
    }
    op_end(&c, 2, 0, ret, err);
    return (int)ret;
}
int fstatat(int d, const char *p, struct stat *st, int fl) { return fstatat64(d, p, (struct stat64 *)st, fl); }

int statx(int d, const char *p, int fl, unsigned int mask, struct statx *st)
{
    do_init();
    char rel[PATH_MAX];
    if (!real_statx) {
        errno = ENOSYS;
        return -1;
    }
    if (!p || p[0] == 0 || !world_at(d, p, rel, sizeof rel))
        return real_statx(d, p, fl, mask, st);
    SIMPLE_BEGIN("STAT", rel)
    if (op_fail(&c, &err))
        ret = -1;
    else {
        ret = real_statx(d, p, fl, mask, st);
        err = errno;
        if (ret == 0 && in_mount(rel))
            st->stx_dev_minor ^= MOUNT_DEV_XOR;
    }
    op_end(&c, 3, 0, ret, err);
    return (int)ret;
}

/* ---- directories ---- */

static int dirent_cmp(const void *a, const void *b)
{
    return strcmp(((const struct dirent64 *)a)->d_name, ((const struct dirent64 *)b)->d_name);
}

static void dir_register(DIR *d, const char *rel)
{
    for (int i = 0; i < MAX_DIRS; i++) {
        if (dirs[i].d)
            continue;
        struct dirbuf *b = &dirs[i];
        b->d = d;
        b->n = 0;
        b->pos = 0;
        snprintf(b->rel, sizeof b->rel, "%s", rel);
        int cap = 64;
        b->ents = malloc(sizeof(struct dirent64) * (size_t)cap);
        struct dirent64 *e;
        while ((e = real_readdir64(d)) != NULL) {
            if (b->n == cap) {
                cap *= 2;
                b->ents = realloc(b->ents, sizeof(struct dirent64) * (size_t)cap);
            }
            memcpy(&b->ents[b->n], e, sizeof *e);
            if (dtype_unknown)
                b->ents[b->n].d_type = DT_UNKNOWN;
            b->n++;
        }
        qsort(b->ents, (size_t)b->n, sizeof(struct dirent64), dirent_cmp);
        if (perm_readdir) {
            for (int j = b->n - 1; j > 0; j--) {
                int r = (int)(rng_next() % (uint64_t)(j + 1));
                struct dirent64 t = b->ents[j];
                b->ents[j] = b->ents[r];
                b->ents[r] = t;
            }
        }
        return;
    }
}

static struct dirbuf *dir_find(DIR *d)
{
    if (!d)
        return NULL;
    for (int i = 0; i < MAX_DIRS; i++)
        if (dirs[i].d == d)
            return &dirs[i];
    return NULL;
}

DIR *opendir(const char *p)
{
    do_init();
    char rel[PATH_MAX];
    if (!world_path(p, rel, sizeof rel))
        return real_opendir(p);
    struct opctx c;
    op_begin(&c, "OPENDIR", rel);
    int err = 0;
    DIR *d = NULL;
    if (!op_fail(&c, &err)) {
        d = real_opendir(p);
        err = errno;
        if (d)
            dir_register(d, rel);
    }
    op_end(&c, 0, 0, d ? 0 : -1, err);
    return d;
}

DIR *fdopendir(int fd)
{
    do_init();
    const char *relp = fd_rel(fd);
    if (!relp)
        return real_fdopendir(fd);
    char rel[PATH_MAX];
    snprintf(rel, sizeof rel, "%s", relp);
    struct opctx c;
    op_begin(&c, "OPENDIR", rel);
    int err = 0;
    DIR *d = NULL;
    if (!op_fail(&c, &err)) {
        d = real_fdopendir(fd);
        err = errno;
        if (d) {
            fdtab_set(fd, NULL);
            dir_register(d, rel);
        }
    }
    op_end(&c, 1, 0, d ? 0 : -1, err);
    return d;
}

struct dirent64 *readdir64(DIR *d)
{
    do_init();
    struct dirbuf *b = active ? dir_find(d) : NULL;
    if (!b)
        return real_readdir64(d);
    struct opctx c;
    op_begin(&c, "READDIR", b->rel);
    int err = errno;
    struct dirent64 *e = NULL;
    int failed = 0;
    if (op_fail(&c, &err)) {
        failed = 1;
    } else if (b->pos < b->n) {
        e = &b->ents[b->pos++];
    }
    /* the entry name travels in the flags column so that the column layout stays stable */
    tracef("%ld\tREADDIR\t%s\t%s\t0\t%d\t%d\t%s\n", c.k, b->rel, e ? e->d_name : (failed ? "!" : "."), e ? 0 : (failed ? -1 : 0),
           failed ? err : 0, c.fired[0] ? c.fired : "-");
    if (c.kill_after)
        die_now();
    if (c.sig_after) {
        tracef("-\tSIGNAL\t%s\t%d\t%ld\t0\t0\tafter\n", b->rel, c.sig_after, c.k);
        signal_raised = 1;
        raise(c.sig_after);
    }
    pthread_mutex_unlock(&mu);
    if (failed)
        errno = err;
    return e;
}
struct dirent *readdir(DIR *d) { return (struct dirent *)readdir64(d); }

int closedir(DIR *d)
{
    do_init();
    struct dirbuf *b = active ? dir_find(d) : NULL;
    if (b) {
        pthread_mutex_lock(&mu);
        free(b->ents);
        b->ents = NULL;
        b->d = NULL;
        pthread_mutex_unlock(&mu);
    }
    return real_closedir(d);
}

/* ---- signals ---- */

int sigaction(int signo, const struct sigaction *act, struct sigaction *old)
{
    do_init();
    if (active && act && (signo == SIGINT || signo == SIGTERM || signo == SIGHUP || signo == SIGQUIT)) {
        const char *h = "handler";
        if (!(act->sa_flags & SA_SIGINFO)) {
            if (act->sa_handler == SIG_DFL) h = "default";
            else if (act->sa_handler == SIG_IGN) h = "ignore";
        }
        tracef("-\tSIGACTION\t%s\t%d\t0\t0\t0\t-\n", h, signo);
    }
    return real_sigaction(signo, act, old);
}

sighandler_t signal(int signo, sighandler_t h)
{
    do_init();
    if (active && (signo == SIGINT || signo == SIGTERM || signo == SIGHUP || signo == SIGQUIT))
        tracef("-\tSIGACTION\t%s\t%d\t0\t0\t0\t-\n", h == SIG_DFL ? "default" : (h == SIG_IGN ? "ignore" : "handler"), signo);
    return real_signal(signo, h);
}

/* ---- randomness and clock ---- */

static void fill_random(void *buf, size_t n)
{
    unsigned char *p = buf;
    pthread_mutex_lock(&mu);
    for (size_t i = 0; i < n; i += 8) {
        uint64_t v = rng_next();
        size_t m = n - i < 8 ? n - i : 8;
        memcpy(p + i, &v, m);
    }
    pthread_mutex_unlock(&mu);
}

ssize_t getrandom(void *buf, size_t n, unsigned int flags)
{
    do_init();
    if (!active)
        return real_getrandom ? real_getrandom(buf, n, flags) : (ssize_t)real_syscall(SYS_getrandom, buf, n, flags);
    if (!buf) {
        /* availability probe (std passes NULL,0) */
        return 0;
    }
    fill_random(buf, n);
    return (ssize_t)n;
}

long syscall(long num, ...)
{
    do_init();
    va_list ap;
    va_start(ap, num);
    long a1 = va_arg(ap, long), a2 = va_arg(ap, long), a3 = va_arg(ap, long), a4 = va_arg(ap, long), a5 = va_arg(ap, long),
         a6 = va_arg(ap, long);
    va_end(ap);
    if (active && num == SYS_getrandom) {
        if (!a1)
            return 0;
        fill_random((void *)a1, (size_t)a2);
        return a2;
    }
    if (active && num == SYS_statx)
        return statx((int)a1, (const char *)a2, (int)a3, (unsigned int)a4, (struct statx *)a5);
    if (active && num == SYS_copy_file_range)
        return copy_file_range((int)a1, (off_t *)a2, (int)a3, (off_t *)a4, (size_t)a5, (unsigned int)a6);
    if (active && num == SYS_renameat2)
        return renameat2((int)a1, (const char *)a2, (int)a3, (const char *)a4, (unsigned int)a5);
    return real_syscall(num, a1, a2, a3, a4, a5, a6);
}

static long sim_clock_ms = 0;

int clock_gettime(clockid_t id, struct timespec *ts)
{
    do_init();
    if (!active || id != CLOCK_REALTIME || !ts)
        return real_clock_gettime(id, ts);
    long ms = __sync_add_and_fetch(&sim_clock_ms, 1);
    ts->tv_sec = sim_clock_base + ms / 1000;
    ts->tv_nsec = (ms % 1000) * 1000000L;
    return 0;
}
