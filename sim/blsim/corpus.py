"""Real-code corpora (the repository's own test data and sources) and the stored-byte mutator."""
import os

from . import core

_cache = {}


def _load():
    if "files" in _cache:
        return _cache["files"]
    out = []
    for base in ("tests/rust_data", "src", "fuzz"):
        root = os.path.join(core.REPO, base)
        for dp, dn, fn in os.walk(root):
            dn.sort()
            for name in sorted(fn):
                if not name.endswith(".rs"):
                    continue
                full = os.path.join(dp, name)
                try:
                    with open(full, "rb") as f:
                        data = f.read()
                except OSError:
                    continue
                if len(data) > 400000:
                    continue
                has_log = any(m in data for m in (b"info!", b"warn!", b"error!", b"debug!", b"trace!"))
                out.append((os.path.relpath(full, core.REPO), data, has_log))
    out.sort(key=lambda x: x[0])
    _cache["files"] = out
    return out


def pick(rng, n, want_log=0.7):
    files = _load()
    logf = [f for f in files if f[2]]
    out = []
    for _ in range(n):
        pool = logf if (logf and rng.random() < want_log) else files
        out.append(pool[rng.randrange(len(pool))])
    return out


MULTI = ["é", "ß", "日本", "𝔘", "ü", "Ж", "‎", " ", "𐍈", "é"]
SNIPPETS = [
    'info!("x");', 'info!("");', 'warn!("", a);', 'error!(target: "t", "");', 'info!(k = 1; "");', 'été!("x")', 'é!("msg")', 'warn!("日本 {}", a);', 'info!(ref = x; "m")', 'error!(target: "t", "m")',
    'info!(k = "v;,"; "m")', 'log::info!("', 'info!(', '"', '\\"', '/*', '*/', '//', 'info!(a = 1, b:? = c; "z")',
    'info!("[ref: 99999999999] m")', 'info!("[ref: ] m")', 'info!(ref = 1, ref = 2; "m")', 'Ж_й::info!("m")', '𝔘!("m")',
    'info!("[ref: 4294967296] m")', 'warn!("[ref: 9999999999] m")', 'info!(ref = 4294967296; "m")', 'info!(ref = 99999999999999999999; "m")',
    'info!("[ref: 0000000001] m")', 'info!(ref = -1; "m")', 'info!(ref = 1.5; "m")', 'info!(ref = 0x10; "m")',
    'info!("[ref: ١٢٣] m")', 'info!("[ref: 12３] m")',
    'info!(\r\n"m")', '\u0085info!("m")', 'info !("m")', "info!('m')", 'info!(r#"m"#)', 'info!(b"m")',
]


def mutate(rng, data, nops=None, utf8_only=False, no_repeat=False):
    """Stored-byte corruption. Returns (bytes, [op names])."""
    b = bytearray(data)
    ops = []
    for _ in range(nops or rng.choice([1, 1, 2, 3, 5])):
        if not b:
            b = bytearray(b"fn x() {}\n")
        op = rng.choice(["bitflip", "truncate", "randrange", "multibyte", "multibyte_before_bang", "dup", "snippet", "snippet",
                         "crlf", "delete", "multibyte_in_macro_line", "bad_utf8_tail", "bad_utf8_mid", "repeat_token", "lone_cr"])
        if utf8_only and op in ("bitflip", "randrange", "bad_utf8_tail", "bad_utf8_mid"):
            op = "snippet"
        if no_repeat and op == "repeat_token":
            op = "snippet"
        ops.append(op)
        if op == "bitflip":
            for _j in range(rng.choice([1, 1, 4, 16])):
                i = rng.randrange(len(b))
                b[i] ^= 1 << rng.randrange(8)
        elif op == "repeat_token":
            # many copies of a small token: unclosed openers, deep nesting, long runs (what backtracking and recursive
            # grammars are sensitive to)
            tok = rng.choice(['/*', '"dir/*", ', '(', '!(', 'info!(', '"', '\\', '//', 'r#"', '{', '[ref: ', '/* */', '*/', 'a::', '"a" ',
                              'info!(k = ', '/*/', 'é'])
            n = rng.choice([30, 60, 120, 300, 1000])
            # an unclosed opener makes the grammar scan the rest of the file once per copy: keep copies x file size small
            n = max(25, min(n, 20000000 // (len(b) + 1)))
            if tok in ('info!(', 'info!(k = ', '!('):
                # nested unclosed macro invocations are re-scanned once per level (1000 levels: 4 s per pass, measured) -
                # slow on a pathological shape, not a hang; 300 levels keep a run far below the time limit (Correction 18)
                n = min(n, 300)
            # very long runs only of tokens that are not identifier characters: the grammar retries its macro-name rule at
            # every character of an identifier-like run, so a 100 000-character "identifier" costs quadratic time - a
            # pathological shape, not a hang (DESIGN 12.7)
            # No longer runs than that: wherever a grammar rule can scan far ahead and then fail (an identifier-like run, a
            # "//" comment without a final newline, ...) a run of n such characters costs n^2 steps - slow on pathological
            # shapes, neither a hang nor "ordinary shape" (DESIGN 12.7, Corrections 1 and 15).
            i = _boundary(b, rng.randrange(len(b) + 1))
            ins = (tok * n).encode("utf-8")
            if tok == '/*' and rng.random() < 0.5:
                ins += b"*/" * n
            b[i:i] = ins + b"\n"
        elif op in ("bad_utf8_tail", "bad_utf8_mid"):
            # an incomplete / malformed UTF-8 sequence: a proper prefix of a 2-4 byte character, a lone continuation
            # byte, an overlong form, a surrogate, a byte that can never occur
            enc = rng.choice(MULTI + ["日", "𝔘", "é"]).encode("utf-8")
            frag = rng.choice([enc[:rng.randrange(1, len(enc))] if len(enc) > 1 else b"\xc3", b"\x80", b"\xbf\xbf", b"\xc0\xaf",
                               b"\xed\xa0\x80", b"\xff", b"\xf8\x88\x80\x80\x80", b"\xe6\x97", b"\xf0\x9f\x98"])
            if op == "bad_utf8_tail":
                if rng.random() < 0.5:
                    del b[_boundary(b, rng.randrange(len(b) + 1)):]
                b += frag
            else:
                i = _boundary(b, rng.randrange(len(b) + 1))
                b[i:i] = frag
        elif op == "truncate":
            cut = rng.randrange(len(b) + 1)
            if utf8_only:
                while cut > 0 and cut < len(b) and (b[cut] & 0xC0) == 0x80:
                    cut -= 1
            del b[cut:]
        elif op == "randrange":
            i = rng.randrange(len(b))
            n = rng.choice([1, 2, 8, 64])
            b[i:i + n] = bytes(rng.randrange(256) for _ in range(n))
        elif op == "multibyte":
            i = _boundary(b, rng.randrange(len(b) + 1))
            b[i:i] = rng.choice(MULTI).encode("utf-8")
        elif op == "multibyte_before_bang":
            idxs = _find_all(b, b"!(")
            if idxs:
                i = idxs[rng.randrange(len(idxs))]
                # put a multi-byte character at the start of the identifier before "!(" or replace the identifier
                j = i
                while j > 0 and (chr(b[j - 1]).isalnum() or b[j - 1] in b"_:"):
                    j -= 1
                if rng.random() < 0.5:
                    b[j:j] = rng.choice(MULTI).encode("utf-8")
                else:
                    b[j:i] = (rng.choice(MULTI) + rng.choice(["", "x", "té"])).encode("utf-8")
        elif op == "multibyte_in_macro_line":
            idxs = _find_all(b, b"info!(") + _find_all(b, b"warn!(") + _find_all(b, b"error!(")
            if idxs:
                i = idxs[rng.randrange(len(idxs))]
                # somewhere on the lines just before the statement (directive scan territory)
                j = max(0, i - rng.randrange(0, 120))
                j = _boundary(b, j)
                b[j:j] = rng.choice(MULTI).encode("utf-8")
        elif op == "dup":
            i = rng.randrange(len(b))
            n = rng.choice([16, 256, 4096])
            i = _boundary(b, i)
            e = _boundary(b, min(len(b), i + n))
            b[i:i] = b[i:e]
        elif op == "snippet":
            i = _boundary(b, rng.randrange(len(b) + 1))
            b[i:i] = (rng.choice(["\n", " ", ""]) + rng.choice(SNIPPETS) + rng.choice(["\n", " ", ""])).encode("utf-8")
        elif op == "lone_cr":
            # classic Mac line ends or one stray carriage return
            if rng.random() < 0.5:
                i = _boundary(b, rng.randrange(len(b) + 1))
                b[i:i] = b"\r"
            else:
                b = bytearray(bytes(b).replace(b"\r\n", b"\n").replace(b"\n", b"\r", rng.choice([1, 3, 100000])))
        elif op == "crlf":
            b = bytearray(bytes(b).replace(b"\r\n", b"\n").replace(b"\n", b"\r\n"))
        elif op == "delete":
            i = _boundary(b, rng.randrange(len(b)))
            e = _boundary(b, min(len(b), i + rng.choice([1, 8, 100])))
            del b[i:e]
    return bytes(b), ops


def _boundary(b, i):
    while 0 < i < len(b) and (b[i] & 0xC0) == 0x80:
        i -= 1
    return i


def _find_all(b, pat):
    out = []
    i = b.find(pat)
    while i != -1 and len(out) < 500:
        out.append(i)
        i = b.find(pat, i + 1)
    return out
