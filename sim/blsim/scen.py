"""Scenario helpers shared by the property drivers: executing one run step on a world model, the
fault-free twin, phases of fault sites, per-file post-state classification, plan enumeration."""
import os

from . import core, world

BENIGN = ("short", "eintr")


def exec_run(wm_or_world, check, plan, knobs, ctx=None, keep_root=False, is_world=False):
    """Materialise, run once, read the world back. Returns dict(before, after, res[, root])."""
    w = wm_or_world if is_world else world.wm_world(wm_or_world)
    if knobs and knobs.get("tmpdir_make"):
        w = dict(w)
        w[knobs["tmpdir"]] = {"t": "d", "mode": 0o755}     # the awkwardly named TMPDIR exists before the run
    root = core.new_root()
    try:
        core.materialise(w, root)
        if not is_world and wm_or_world.get("git"):
            git_work_tree(root)
        before = core.read_world(root)
        res = core.run_breadlog(root, check=check, plan=plan, knobs=knobs)
        after = core.read_world(root)
    except Exception:
        core.rm_root(root)
        raise
    if ctx is not None:
        ctx.count_run(res)
    out = {"before": before, "after": after, "res": res}
    if keep_root:
        out["root"] = root
    else:
        core.rm_root(root)
    return out


def git_work_tree(root):
    """Make proj/ a git work tree (one commit) whose index is stale for one tracked file - what most projects look like.
    Anything that runs git on behalf of the tool sees a repository it might 'refresh'."""
    import subprocess
    proj = os.path.join(root, "proj")
    env = {"PATH": "/usr/bin:/bin", "HOME": os.path.join(root, "outside"), "GIT_CONFIG_NOSYSTEM": "1", "GIT_AUTHOR_NAME": "dev",
           "GIT_AUTHOR_EMAIL": "dev@example.invalid", "GIT_COMMITTER_NAME": "dev", "GIT_COMMITTER_EMAIL": "dev@example.invalid",
           "GIT_AUTHOR_DATE": "1790000000 +0000", "GIT_COMMITTER_DATE": "1790000000 +0000"}
    try:
        for args in (["init", "-q"], ["add", "-A"], ["commit", "-q", "-m", "initial", "--no-gpg-sign"]):
            subprocess.run(["git", "-C", proj] + args, env=env, check=True, stdout=subprocess.DEVNULL, stderr=subprocess.DEVNULL)
    except (OSError, subprocess.CalledProcessError) as e:
        raise core.HarnessError("cannot set up the git work tree: %s" % e)
    for dp, _dn, fn in os.walk(os.path.join(proj, "src")):
        for name in sorted(fn):
            os.utime(os.path.join(dp, name), (1790000321, 1790000321))    # index entries are stale now
            return


def env_knobs(rng, knobs, unusable_tmp=False):
    """Per-run environment variation (swarm): argv spelling, relative TMPDIR, trailing slash."""
    if rng.random() < 0.3:
        knobs["argv_style"] = rng.choice(["long", "long_eq", "check_first"])
    if rng.random() < 0.3:
        # variables a tool might (wrongly) let itself be steered by
        pool = {"CI": "true", "NO_COLOR": "1", "TERM": "dumb", "HOME": "/nonexistent", "USER": "nobody", "LANG": "tr_TR.UTF-8",
                "LC_ALL": "C", "TZ": "Pacific/Kiritimati", "RUST_LOG": "trace", "RUST_BACKTRACE": "0", "BREADLOG_CHECK": "1",
                "BREADLOG_CONFIG": "/nonexistent.yaml", "GITHUB_ACTIONS": "true", "COLUMNS": "20", "XDG_CACHE_HOME": "/nonexistent"}
        ks = rng.sample(sorted(pool), rng.randrange(1, 5))
        knobs["env"] = {k: pool[k] for k in ks}
    if rng.random() < 0.12:
        # where the simulated wall clock stands: the epoch, 2000, either side of 2^31 and 2^32 seconds, long ago relative to
        # every file's mtime, far ahead of it
        knobs["clock"] = rng.choice([1, 946684800, 2147483640, 2147483650, 4294967290, 4294967300, 1600000000, 7258118400])
    if rng.random() < 0.08:
        # every operation is preceded by a short pause (0..n microseconds, derived from the operation number): threads and
        # tasks inside the tool drift against each other - nothing may depend on how fast the calls come
        knobs["jitter_us"] = rng.choice([300, 2000, 5000])
    if rng.random() < 0.1:
        knobs["dt_unknown"] = True   # a file system whose readdir does not tell the entry type (d_type = DT_UNKNOWN)
    if rng.random() < 0.12:
        # descriptors are a bounded resource: with a small RLIMIT_NOFILE whatever leaks one per file runs out within a
        # many-file world (the unchanged tool never holds more than eight)
        knobs["nofile"] = rng.choice([16, 16, 24, 48])
    r = rng.random()
    if r < 0.12:
        knobs["tmpdir_rel"] = True
    elif r < 0.2:
        knobs["tmpdir_slash"] = True
    elif r < 0.3:
        # an existing, writable TMPDIR with an awkward name: not valid UTF-8, spaces, non-ASCII, very long
        # (a name that is not valid UTF-8 makes Breadlog refuse to build its scratch path: every edit fails cleanly; only
        # the driver that knows how to judge that - C08 - asks for it)
        names = ["with space", "ünï-日本", "x" * 120, "a/b/c"] + (["sub-\udcff\udcfe-dir"] * 2 if unusable_tmp else [])
        knobs["tmpdir"] = "tmp/" + rng.choice(names)
        knobs["tmpdir_make"] = True
    return knobs


RARE_KINDS = ["CHMOD", "COPY", "FSYNC", "LINK", "MKDIR", "SYMLINK", "TRUNCATE", "RMDIR"]


def unseen_ops_fault(rng, ops):
    """Calls the unchanged tool never makes (chmod, fsync, link, truncate, copy_file_range, ...) get no fault from the
    enumeration over its recorded operations - but code that starts making them has to cope with their failure as well (a
    file system without permissions or without fsync, a sandbox that refuses the call).  One class-addressed fault: every
    such call fails.  (Not "kinds the twin did not make": the twin is recorded with the binary under test.)"""
    return {"from": 1, "kinds": list(RARE_KINDS), "act": "fail", "errno": rng.choice(["EPERM", "EOPNOTSUPP", "ENOSYS", "EIO", "EACCES"])}


def base_plan(plan):
    return {"seed": plan.get("seed", 1), "perm": plan.get("perm", False), "faults": []}


def is_source_path(p, wm):
    return p in wm["files"]


def phases(ops, src_prefix="proj/src"):
    """Map op number -> phase name, from a (fault-free) operation list."""
    out = {}
    phase_started = False
    renamed = set()
    mutated = False
    for op in ops:
        p = op.path
        cls = op.cls()
        first = p.split(" -> ")[0]
        in_src = first == src_prefix or first.startswith(src_prefix + "/")
        if not phase_started and (in_src or cls == "scratch"):
            phase_started = True
        if not phase_started:
            ph = "startup"
        elif cls == "lock":
            ph = "lock-write" if op.kind in ("OPEN_W", "WRITE", "RENAME", "TRUNCATE") else "lock-other"
        elif cls == "scratch":
            if op.kind == "OPEN_W":
                ph = "scratch-open"
            elif op.kind == "RENAME":
                ph = "rename"
                renamed.add(first)
                mutated = True
            elif first in renamed:
                ph = "after-rename"
            elif op.kind == "WRITE":
                ph = "scratch-write"
            elif op.kind == "UNLINK":
                ph = "scratch-cleanup"
            else:
                ph = "scratch-other"
        elif in_src:
            if op.kind in ("STAT", "OPENDIR", "READDIR"):
                ph = "discovery"
            elif op.kind in ("OPEN_R", "READ"):
                ph = "read-after-mutation" if mutated else "read"
            elif op.kind == "RENAME":
                ph = "rename"
                mutated = True
            else:
                ph = "source-" + op.kind.lower()
                if op.is_mutation():
                    mutated = True
        else:
            ph = "other"
        out[op.k] = ph
    return out


def phase_of(phmap, k, nops):
    if k > nops:
        return "after-last-op"
    return phmap.get(k, "unknown")


def fault_class(f):
    a = f["act"]
    if a.startswith("kill"):
        return "kill"
    if a.startswith("sig"):
        return "SIGINT" if f.get("signo") == 2 else "SIGTERM" if f.get("signo") == 15 else "sig%s" % f.get("signo")
    if a in ("fail", "torn"):
        return "ioerr"
    return a


def classify_files(wm, before, after, twin_after):
    """For each in-scope model file: 'original' | 'updated' | 'unchanged-noop' | 'other' | 'missing'.
    'updated' = before + tokens at exactly the twin's insertion offsets (ID values may differ)."""
    out = {}
    for p in sorted(wm["files"]):
        b = before.get(p)
        a = after.get(p)
        t = twin_after.get(p)
        if a is None or a["t"] != "f":
            out[p] = "missing"
            continue
        tw_ins = core.explain(b["data"], t["data"]) if t is not None and t["t"] == "f" else None
        if a["data"] == b["data"]:
            out[p] = "original" if tw_ins else "unchanged-noop"
            continue
        ins = core.explain(b["data"], a["data"])
        if ins is None or tw_ins is None:
            out[p] = "other"
            continue
        if [i[0] for i in ins] == [i[0] for i in tw_ins] and [len(i[1]) > 0 for i in ins]:
            # same places; token kinds must match too (prefix shape), numbers are free
            same_shape = all(_tok_shape(x[1]) == _tok_shape(y[1]) for x, y in zip(ins, tw_ins))
            out[p] = "updated" if same_shape else "other"
        else:
            out[p] = "other"
    return out


def _tok_shape(tok):
    return tok[:6] if tok.startswith(b"[ref: ") else (b"ref = " + tok[-2:])


def count_tokens(before, after, paths):
    n = 0
    for p in paths:
        b, a = before.get(p), after.get(p)
        if b is None or a is None or a["t"] != "f":
            continue
        ins = core.explain(b["data"], a["data"])
        if ins:
            n += len(ins)
    return n


def applicable_actions(op, kinds):
    """Fault actions from `kinds` that make sense on this op."""
    out = []
    for a in kinds:
        if a in ("kill_before", "kill_after", "sig_before", "sig_after"):
            out.append(a)
        elif a == "kill_mid":
            if op.kind == "WRITE" and op.req > 1:
                out.append(a)
        elif a in ("short",):
            if op.kind in ("READ", "WRITE") and op.req > 1 and op.ret > 1:
                out.append(a)
        elif a == "torn":
            if op.kind == "WRITE" and op.req > 1:
                out.append(a)
        elif a == "eintr":
            if op.kind in ("READ", "WRITE", "OPEN_R", "OPEN_W"):
                out.append(a)
        elif a == "fail":
            out.append(a)
    return out


def errnos_for(op):
    k = op.kind
    if k == "RENAME":
        return ["EXDEV", "EIO", "EACCES", "ENOSPC"]
    if k in ("WRITE",):
        return ["EIO", "ENOSPC", "EDQUOT", "EFBIG", "EINVAL", "EPERM"]
    if k == "OPEN_W":
        return ["EACCES", "ENOSPC", "EMFILE", "EROFS", "EIO"]
    if k in ("OPEN_R", "OPENDIR"):
        return ["EACCES", "EMFILE", "EIO"]   # not ENOENT: that would be a lie about the tree, not an I/O failure
    if k in ("READ", "READDIR"):
        return ["EIO"]
    if k == "STAT":
        return ["EACCES", "EIO"]
    if k == "UNLINK":
        return ["EACCES", "EIO"]
    return ["EIO"]
