"""C17 - no input makes Breadlog panic or hang; unreadable files are skipped."""
import hashlib
import random
import zlib
import re

from .. import core, corpus, scen, world

ID = "C17"
LEVEL = "exploration"
TECHNIQUE = ("deterministic simulation of check/edit runs of the real binary on worlds whose stored bytes are corrupted by the "
             "seeded plan (bit flips, truncation inside UTF-8 sequences, multi-byte splices before macro calls, random ranges), plus "
             "injected read faults; termination-mode / panic / time monitor and sibling-still-processed oracle")
LEVEL_TEXT = ("Real-code files from the repository's corpora are corrupted at the stored-byte level by the seeded plan and processed "
              "in both modes together with an intact sibling file; some runs additionally get an injected open/read failure on one "
              "file. The process must exit by itself with a status other than 101/134, print no panic message, finish within 20 s, "
              "and still report/edit the sibling. Mutation without coverage feedback: exploration (a fuzzer would search the input "
              "space better; the simulator adds the read-fault half and the seam-level monitor).")
LEVEL_NOTE = "Trusted: panic = exit status 101 / abort signal / 'panicked at' on stderr; hang = no exit within 20 s for files <= 1 MiB."
RULE = ("case = 1-3 corpus files (tests/rust_data, src) each with 1-5 seeded mutations (some left intact), one intact sibling with a "
        "missing reference, optional empty / >1 MiB file, mode check|edit, optional fail on OPEN_R/READ of one source file. "
        "Non-trivial = at least one mutated or faulted file; distinct = case index.")
PROBES = ["many_files", "unicode_padding", "unicode_messages", "invalid_utf8_file", "read_fault_injected", "unreadable_file_skipped", "empty_file", "large_file", "multibyte_before_bang", "unicode_tail",
          "edit_mode", "check_mode"]
ASSUMPTIONS = ["files <= ~1.5 MiB count as 'ordinary shape' for the 20 s bound"]
DEADLINE = {"quick": 200, "thorough": 3300}

SIB = "proj/src/zz_sibling.rs"
RE_PANIC_AT = re.compile(r"panicked at ([^\s:]+:\d+)")


def n_cases(tier):
    return 3000 if tier == "quick" else 100000


UNI = ["é", "ß", "ж", "я", "日", "本", "語", "𝔘", "😀", "‎", "ñ", "Ω", "\u0301", "\u00a0", "ü"]


def unicode_statements(rng, structured):
    """Log statements whose message (and surroundings) mix 1-4 byte characters at every byte alignment."""
    out = ["fn uni(count: u32, state: &str) {\n"]
    for _ in range(rng.randrange(3, 10)):
        pre = "".join(rng.choice("abcdefgh xyz_") for _ in range(rng.randrange(0, 24)))
        body = "".join(rng.choice(UNI) if rng.random() < 0.6 else rng.choice("abc def") for _ in range(rng.randrange(1, 40)))
        msg = pre + body
        lead = rng.choice(["    ", "\t", "    /* " + rng.choice(UNI) * rng.randrange(1, 4) + " */ ", "    let _" + "é" + " = 1; "])
        macro = rng.choice(["info", "warn", "error", "log::info"])
        args = rng.choice(["", "", "target: \"" + rng.choice(UNI) + "t\", ", "k = \"" + rng.choice(UNI) + ";\"; ", "state; "])
        ref = rng.choice(["", "", "[ref: %d] " % rng.randrange(1, 99999)])
        out.append("%s%s!(%s\"%s%s\");\n" % (lead, macro, args, ref, msg))
    out.append("}\n")
    return "".join(out).encode("utf-8")


def gen(rng):
    structured = rng.random() < 0.4
    files = {}
    tags = set()
    desc = []
    for i, (rel, data, _hl) in enumerate(corpus.pick(rng, rng.randrange(1, 4))):
        if rng.random() < 0.85:
            data2, ops = corpus.mutate(rng, data)
            for o in ops:
                if o == "multibyte_before_bang":
                    tags.add("multibyte_before_bang")
        else:
            data2, ops = data, []
        try:
            data2.decode("utf-8")
        except UnicodeDecodeError:
            tags.add("invalid_utf8_file")
        files["proj/src/m%d_%s" % (i, rel.replace("/", "_"))] = data2
        desc.append((rel, ops, len(data2)))
    r = rng.random()
    if r < 0.08:
        files["proj/src/empty.rs"] = b""
        tags.add("empty_file")
    elif r < 0.12:
        # a large file of ordinary shape: mostly inert code, one (possibly corrupted) real file's worth of statements.
        # (A file made of thousands of log statements is not: line/column lookup is linear per statement, so such a
        # file takes time quadratic in its size - slow, but neither a hang nor "ordinary shape".)
        mid, _ops = corpus.mutate(rng, corpus.pick(rng, 1)[0][1], utf8_only=True, no_repeat=True)
        half = rng.choice([550000, 700000])
        files["proj/src/big.rs"] = world.make_pad(rng, half).encode() + mid + b"\n" + world.make_pad(rng, half).encode()
        tags.add("large_file")
    if rng.random() < 0.5:
        files["proj/src/uni_msgs.rs"] = unicode_statements(rng, structured)
        tags.add("unicode_messages")
    if rng.random() < 0.2:
        # a larger file whose padding is mostly multi-byte text: a 2-4 byte character sits at every distance (8 KiB, 64 KiB,
        # ...) before some statement
        segs = world.Gen(rng).source_file(structured, rng.randrange(2, 6), rng.choice(["k8", "k64", "k64", "k160"]),
                                          [None] * 5, unicode_p=0.9)
        files["proj/src/uni_pad.rs"] = world.segs_bytes(segs)
        tags.add("unicode_padding")
        # in half of these, more than 64 KiB of mostly multi-byte text FOLLOWS the last statement as well: the copy of the
        # remainder of a file is the rewriter's largest single write (round N). The decision and the tail come from a
        # generator of their own, seeded by the file's content, so that the case streams of earlier rounds do not shift.
        r2 = random.Random(zlib.crc32(files["proj/src/uni_pad.rs"]))
        if r2.random() < 0.5:
            files["proj/src/uni_pad.rs"] += world.make_pad(r2, r2.choice([70000, 140000, 300000]), unicode_p=0.95).encode("utf-8")
            tags.add("unicode_tail")
    if rng.random() < 0.012:
        # a great many small readable files (counts around powers of two)
        for j in range(rng.choice([256, 513, 600, 1025])):
            files["proj/src/many/d%02d/f%04d.rs" % (j % 23, j)] = b"fn f() { info!(\"small file\"); }\n"
        tags.add("many_files")
    sib = ("fn sibling() {\n    %s!(\"mkSIBq intact sibling\");\n}\n" % "info").encode()
    wm_extra = {p: {"t": "f", "mode": 0o644, "data": d} for p, d in files.items()}
    wm_extra[SIB] = {"t": "f", "mode": 0o644, "data": sib}
    cfg = {"source_dir": "./src", "structured": structured, "use_cache": rng.choice([False, False, None])}
    wm = {"cfg": cfg, "files": {}, "extra": wm_extra, "lock": None}
    check = rng.random() < 0.5
    knobs = {"threads": rng.randrange(1, 5)}
    plan = {"seed": rng.getrandbits(48) | 1, "perm": True, "faults": []}
    if rng.random() < 0.25:
        kind = rng.choice(["OPEN_R", "READ"])
        plan["faults"].append({"from": 1, "kinds": [kind], "pre": "proj/src/m", "nth": rng.randrange(1, 4), "act": "fail",
                               "errno": rng.choice(["EIO", "EACCES", "EMFILE"]) if kind == "OPEN_R" else "EIO"})
    return wm, knobs, plan, check, tags, desc


def evaluate(wm, knobs, plan, check, ctx):
    run = scen.exec_run(wm, check, plan, knobs, ctx)
    res = run["res"]
    mode = "check" if check else "edit"
    digest = hashlib.sha256((res.trace_digest() + core.digest_world(run["after"])).encode()).hexdigest()
    scenario = {"wm": world.wm_to_json(wm), "knobs": knobs, "plan": plan, "check": check}
    viols = []
    text = res.stdout + "\n" + res.stderr

    def V(sig, what):
        viols.append({"signature": sig, "what": what, "scenario": scenario, "digest": digest})

    if res.mode == "timeout":
        V("hang|%s" % mode, "no exit within %.0f s" % core.RUN_TIMEOUT)
        return viols, res
    m = RE_PANIC_AT.search(text)
    if res.mode == "signaled" or (res.mode == "exited" and res.status in (101, 134)) or m:
        where = m.group(1) if m else ("signal %s" % res.status if res.mode == "signaled" else "status %s" % res.status)
        line = ""
        for ln in text.split("\n"):
            if "panicked at" in ln:
                line = ln.strip()[:200]
                break
        V("panic|%s" % where, "%s run terminated abnormally (%s): %s" % (mode, res.ending(), line))
        return viols, res
    # a file that cannot be read as text is reported ...
    for pth, e in sorted(wm["extra"].items()):
        if e["t"] != "f" or not pth.endswith(".rs"):
            continue
        try:
            e["data"].decode("utf-8")
        except UnicodeDecodeError:
            base = pth.rsplit("/", 1)[-1]
            if base not in text:
                V("unreadable-file-not-reported|%s" % mode, "%s is not valid UTF-8 but is mentioned nowhere in the output (exit %s)"
                  % (base, res.status))
            break
    # ... and skipped while the sibling is still processed
    if check:
        rep = core.parse_report(text)
        if not any(f.endswith("zz_sibling.rs") for f, _l, _c in rep["missing"]):
            V("sibling-not-processed|check", "--check did not report the intact sibling's missing reference (exit %s)" % res.status)
    else:
        b = run["before"][SIB]["data"]
        a = run["after"].get(SIB)
        ins = core.explain(b, a["data"]) if a and a["t"] == "f" else None
        if not ins:
            V("sibling-not-processed|edit", "edit run did not insert a reference into the intact sibling (exit %s)" % res.status)
    return viols, res


def run_case(rng, idx, tier, ctx):
    wm, knobs, plan, check, tags, desc = gen(rng)
    viols, res = evaluate(wm, knobs, plan, check, ctx)
    for t in tags:
        ctx.probes[t] += 1
    ctx.probes["check_mode" if check else "edit_mode"] += 1
    if plan["faults"] and res.fired_counts():
        ctx.probes["read_fault_injected"] += 1
    if "Failed to read file" in (res.stdout + res.stderr):
        ctx.probes["unreadable_file_skipped"] += 1
    if any(ops for _r, ops, _n in desc) or res.fired_counts():
        ctx.nontrivial.add(str(idx))
    if not ctx.samples:
        ctx.samples.append({"mode": "check" if check else "edit", "files": [(r, ops, n) for r, ops, n in desc],
                            "faults": plan["faults"], "ending": res.ending(), "wall_s": round(res.wall, 3)})
    return viols


def replay(scenario, ctx):
    wm = world.wm_from_json(scenario["wm"])
    vs, _ = evaluate(wm, scenario["knobs"], scenario["plan"], scenario["check"], ctx)
    return vs


def shrink_candidates(scenario):
    """Drop files; then cut a file's content down (halves, then lines)."""
    extra = scenario["wm"]["extra"]
    names = [p for p in sorted(extra) if p != SIB and p.startswith("proj/src/")]
    if len(names) > 1:
        for p in names:
            s2 = _with(scenario, {k: v for k, v in extra.items() if k != p})
            yield s2
    if scenario["plan"]["faults"]:
        s2 = dict(scenario)
        s2["plan"] = dict(scenario["plan"], faults=[])
        yield s2
    for p in names:
        data = core.dec_bytes(extra[p])
        n = len(data)
        if n <= 8:
            continue
        cuts = []
        for frac in (2, 4, 8, 16, 32, 64):
            step = max(1, n // frac)
            for start in range(0, n, step):
                cuts.append((start, min(n, start + step)))
                if len(cuts) > 40:
                    break
        for a, b in cuts:
            d2 = data[:a] + data[b:]
            e2 = dict(extra)
            e2[p] = {"t": "f", "mode": 0o644, **core.enc_bytes(d2)}
            yield _with(scenario, e2)


def _with(scenario, extra):
    s2 = dict(scenario)
    wm2 = dict(scenario["wm"])
    wm2["extra"] = extra
    s2["wm"] = wm2
    return s2
