"""Helpers shared by the single-run fault-enumeration drivers (C04, C07, C08, C18)."""
import copy

from .. import core, scen, world

HOT = {"scratch-write": 6, "rename": 8, "after-rename": 8, "scratch-open": 4, "lock-write": 5, "scratch-cleanup": 3,
       "read-after-mutation": 3, "discovery": 1, "read": 1, "startup": 1}


def twin_probes(ctx, ops, phm):
    writes = {}
    for o in ops:
        ph = phm.get(o.k)
        if ph == "after-rename" and o.kind == "WRITE":
            ctx.probes["write_after_rename"] += 1
        if ph == "scratch-write":
            writes[o.path] = writes.get(o.path, 0) + 1
    if any(v >= 2 for v in writes.values()):
        ctx.probes["multi_drain"] += 1


def candidates(rng, ops, phm, kinds, all_errnos, signos=(15,)):
    out = []
    for op in ops:
        ph = phm.get(op.k, "other")
        for act in scen.applicable_actions(op, kinds):
            if act == "fail":
                errs = scen.errnos_for(op)
                if not all_errnos:
                    errs = [errs[rng.randrange(len(errs))]]
                for e in errs:
                    out.append((ph, {"k": op.k, "act": "fail", "errno": e}))
            elif act == "torn":
                errs = ["EIO", "ENOSPC"] if all_errnos else [rng.choice(["EIO", "ENOSPC"])]
                for e in errs:
                    out.append((ph, {"k": op.k, "act": "torn", "errno": e, "frac": rng.choice([0.1, 0.5, 0.9])}))
            elif act in ("kill_mid", "short"):
                out.append((ph, {"k": op.k, "act": act, "frac": rng.choice([0.1, 0.5, 0.9])}))
            elif act.startswith("sig"):
                for s in signos:
                    out.append((ph, {"k": op.k, "act": act, "signo": s}))
            else:
                out.append((ph, {"k": op.k, "act": act}))
    return out


def enumerate_plans(rng, ops, phm, kinds, tier, quick_n, base, signos=(15,), cap=900, weights=None):
    thorough = tier == "thorough"
    cands = candidates(rng, ops, phm, kinds, thorough, signos)
    w = weights or HOT
    if not thorough:
        chosen = weighted_sample(rng, cands, [w.get(ph, 1) for ph, _ in cands], quick_n)
    elif len(cands) > cap:
        chosen = weighted_sample(rng, cands, [w.get(ph, 1) for ph, _ in cands], cap)
    else:
        chosen = cands
    chosen.sort(key=lambda c: (c[1]["k"], c[1]["act"], str(c[1].get("errno", "")), c[1].get("signo", 0)))
    return [{"seed": base["seed"], "perm": base["perm"], "faults": [f]} for _ph, f in chosen]


def weighted_sample(rng, items, weights, n):
    """Sample up to n distinct items with the given weights (deterministic given rng)."""
    if len(items) <= n:
        return list(items)
    keyed = []
    for it, w in zip(items, weights):
        u = rng.random()
        keyed.append((u ** (1.0 / max(w, 1e-9)), it))
    keyed.sort(key=lambda x: -x[0])
    return [it for _k, it in keyed[:n]]


# ---------------------------------------------------------------------------------------------
# minimisation of single-run scenarios: reduce the world, then re-anchor the fault to the operation
# with the same (kind, class, phase) in the reduced world's fault-free trace.


def _site_of(wm, check, plan, knobs):
    tw = scen.exec_run(wm, check, scen.base_plan(plan), knobs)
    ops = tw["res"].ops
    phm = scen.phases(ops)
    f0 = plan["faults"][0]
    k = f0.get("k", 0)
    if not k or k > len(ops):
        return None, ops, phm
    op = ops[k - 1]
    return (op.kind, op.cls(), phm.get(k)), ops, phm


def _reanchored(wm2, check, plan, knobs, site):
    tw = scen.exec_run(wm2, check, scen.base_plan(plan), knobs)
    ops = tw["res"].ops
    phm = scen.phases(ops)
    out = []
    for op in ops:
        if (op.kind, op.cls(), phm.get(op.k)) == site:
            p2 = copy.deepcopy(plan)
            p2["faults"][0]["k"] = op.k
            out.append(p2)
    return out[:3] + out[-1:] if len(out) > 4 else out


def world_reductions(wm):
    """Smaller world models: drop a file, drop a statement, shrink padding."""
    files = sorted(wm["files"])
    if len(files) > 1:
        for p in files:
            w2 = copy.deepcopy(wm)
            del w2["files"][p]
            yield w2
    for p in files:
        segs = wm["files"][p]
        big = [i for i, s in enumerate(segs) if s[0] == "pad" and len(s[1]) > 200]
        if big:
            w2 = copy.deepcopy(wm)
            for i in big:
                txt = w2["files"][p][i][1]
                # keep the last line (may open a function body)
                w2["files"][p][i][1] = txt[txt.rstrip("\n").rfind("\n") + 1:] if "\n" in txt.rstrip("\n") else txt
            yield w2
    for p in files:
        segs = wm["files"][p]
        idxs = [i for i, s in enumerate(segs) if s[0] == "stmt"]
        if len(idxs) > 1:
            for i in idxs:
                w2 = copy.deepcopy(wm)
                del w2["files"][p][i]
                yield w2


def shrink_single(scenario, check):
    wm = world.wm_from_json(scenario["wm"])
    plan = scenario["plan"]
    knobs = scenario["knobs"]
    if not plan["faults"] or not plan["faults"][0].get("k"):
        for w2 in world_reductions(wm):
            s2 = dict(scenario)
            s2["wm"] = world.wm_to_json(w2)
            yield s2
        return
    site, _ops, _phm = _site_of(wm, check, plan, knobs)
    if site is None:
        return
    for w2 in world_reductions(wm):
        try:
            plans = _reanchored(w2, check, plan, knobs, site)
        except Exception:
            continue
        for p2 in plans:
            s2 = dict(scenario)
            s2["wm"] = world.wm_to_json(w2)
            s2["plan"] = p2
            yield s2
