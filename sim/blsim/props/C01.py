"""C01 - newly assigned reference IDs are unique and within the documented range."""
import hashlib

from .. import core, scen, world

ID = "C01"
LEVEL = "exploration"
TECHNIQUE = ("deterministic simulation of fault-free edit runs of the real binary on seeded generated trees (ID layouts incl. 0, gaps, "
             "u32 boundary; lock absent/disabled/ahead; permuted directory enumeration), uniqueness/range oracle on the inserted tokens")
LEVEL_TEXT = ("Seeded generated source trees (1-6 files, mixed statements with/without IDs, IDs at 0, with gaps and next to 2^32-1, "
              "both styles, lock absent / disabled / present and ahead) are edited by the real binary with the directory enumeration "
              "order permuted per run; the inserted tokens (byte diff) must be pairwise distinct, distinct from every planted ID, in "
              "1..=4294967295, above the maximum when no lock is used, and an exhausted range must make the run fail. The input "
              "dimension is sampled by a generator, not searched: exploration.")
LEVEL_NOTE = ("Trusted: the generator's statement shapes are recognised by the tool (verified by its own unit tests); the insert-only "
              "alignment identifies the inserted numbers. The simulator contributes enumeration order, thread count and lock history.")
RULE = ("case = one generated tree + configuration; 1 edit run (2 with the order re-permuted under another seed). Non-trivial = "
        "at least one ID inserted or range exhaustion reached; distinct = distinct (case index).")
PROBES = ["slow_read", "id_zero_present", "boundary_ids", "range_exhausted", "lock_ahead", "lock_disabled", "lock_absent", "multi_file_inserts"]
ASSUMPTIONS = ["lock, when used, is ahead of every ID in the tree (the property's precondition)"]
DEADLINE = {"quick": 200, "thorough": 3000}
U32 = 0xFFFFFFFF


def n_cases(tier):
    return 4000 if tier == "quick" else 60000


def gen(rng):
    boundary = rng.random() < 0.22
    special = [0] if rng.random() < 0.3 else None
    hi = 200
    if boundary:
        special = (special or []) + [U32, U32 - 1, U32 - 2, U32 - 5]
    lockmode = rng.choice(["absent", "disabled", "ahead"])
    wm = world.gen_world_model(rng, use_cache={"absent": rng.choice([True, None]), "disabled": False,
                                               "ahead": rng.choice([True, None])}[lockmode],
                               nfiles=rng.randrange(1, 7),
                               sizes=["tiny", "tiny", "tiny", "k8"] if rng.random() > 0.03 else ["tiny", "k256", "k600"],
                               p_have=rng.choice([0.2, 0.5, 0.8]),
                               id_hi=hi, lock="absent", max_stmts=4, min_missing=rng.choice([0, 1, 1, 2, 3]),
                               special_ids=special, many=rng.choice([100, 256, 700]) if rng.random() < 0.02 else None,
                               many_files=rng.choice([64, 255, 256, 257, 300]) if rng.random() < 0.015 else None, big_p=0.008)
    ids = list(world.wm_ids(wm).values())
    top = max(ids) if ids else 0
    if lockmode == "ahead":
        if boundary and rng.random() < 0.6:
            lockv = rng.choice([U32, U32 - 1, U32 - 2])
            if lockv <= top:
                lockv = None
        else:
            lockv = top + rng.randrange(1, 50)
            if lockv > U32:
                lockv = None
        if lockv is None:
            lockmode = "absent"
        else:
            wm["lock"] = core.lock_text(lockv)
    if rng.random() < 0.1:
        # what a run that died between writing the lock's sibling file and renaming it leaves behind - long ago, with a value
        # that has nothing to do with the IDs now in the tree
        wm["extra"]["proj/Breadlog.lock.tmp"] = {"t": "f", "mode": 0o644, "data": rng.choice(
            [core.lock_text(rng.randrange(1, 6)), core.lock_text(rng.randrange(1, 200)), b"", b"---\nnext_refere"])}
    knobs = {"threads": rng.randrange(1, 5), "config_arg": rng.choice(["rel", "abs"])}
    knobs = scen.env_knobs(rng, knobs)
    plan = {"seed": rng.getrandbits(48) | 1, "perm": True, "faults": []}
    if rng.random() < 0.012:
        # a slow disk or network mount: one open / read of a source file takes seconds.  Nothing fails - the run is only
        # slower, and its result must not depend on that.
        plan["faults"] = [{"from": 1, "kinds": [rng.choice(["OPEN_R", "READ"])], "pre": "proj/src", "nth": rng.randrange(1, 5),
                           "act": "stall", "frac": 6.5}]
    return wm, knobs, plan, lockmode


def evaluate(wm, knobs, plan, ctx):
    run = scen.exec_run(wm, False, plan, knobs, ctx)
    res = run["res"]
    if res.mode == "timeout":
        raise core.HarnessError("timeout in C01")
    planted = world.wm_ids(wm)  # marker -> id
    planted_ids = set(planted.values())
    lock_in_use = world.cfg_uses_lock(wm["cfg"])
    lockv = core.read_lock(wm["lock"]) if (wm.get("lock") is not None and lock_in_use) else None
    lockmode = "disabled" if not lock_in_use else ("ahead" if lockv is not None else "absent")
    missing = sum(1 for p in wm["files"] for s in world.file_stmts(wm["files"][p]) if world.stmt_id(s[2]) is None)
    top = max(planted_ids) if planted_ids else 0
    start = lockv if lockv is not None else (top + 1 if top > 0 else 1)
    exhausted = missing > 0 and start + missing - 1 > U32
    inserted = []
    torn = []
    for p in sorted(wm["files"]):
        b, a = run["before"][p]["data"], run["after"].get(p)
        if a is None or a["t"] != "f":
            torn.append(p)
            continue
        ins = core.explain(b, a["data"])
        if ins is None:
            torn.append(p)
            continue
        inserted += [(p, n, tok) for _o, tok, n in ins]
    tag = "lock=%s|%s" % (lockmode, "boundary" if (top >= U32 - 8 or (lockv or 0) >= U32 - 8) else "plain")
    digest = hashlib.sha256((res.trace_digest() + core.digest_world(run["after"])).encode()).hexdigest()
    scenario = {"wm": world.wm_to_json(wm), "knobs": knobs, "plan": plan}
    viols = []

    def V(sym, what):
        viols.append({"signature": "%s|%s|%s" % (sym, res.ending(), tag), "what": what, "scenario": scenario, "digest": digest})

    nums = [n for _p, n, _t in inserted]
    if len(set(nums)) != len(nums):
        dup = sorted(n for n in set(nums) if nums.count(n) > 1)
        V("duplicate-new-id", "ID(s) %s inserted more than once in one run" % dup[:5])
    clash = sorted(set(nums) & planted_ids)
    if clash:
        V("new-id-equals-existing", "inserted ID(s) %s already carried by a statement in the tree" % clash[:5])
    out_of_range = [n for n in nums if not (1 <= n <= U32)]
    if out_of_range:
        V("id-out-of-range", "inserted ID(s) %s outside 1..=4294967295" % out_of_range[:5])
    if lockv is None and nums and top > 0 and min(nums) <= top and not clash:
        V("new-id-not-above-max", "no lock in use, largest existing ID %d, but %d was inserted" % (top, min(nums)))
    if exhausted and res.mode == "exited" and res.status == 0:
        V("range-exhausted-not-failed", "start %d, %d statements need IDs (range exhausted) but the run exited 0; inserted %s"
          % (start, missing, nums[:6]))
    if res.mode != "exited":
        V("abnormal-termination", "edit run ended by %s; stderr: %s" % (res.ending(), res.stderr[-200:].replace("\n", " ")))
    if torn:
        V("not-insert-only", "%s is not original+tokens after a fault-free run" % torn[0])
    return viols, {"nums": nums, "exhausted": exhausted, "lockmode": lockmode, "top": top, "missing": missing, "status": res.status}


def run_case(rng, idx, tier, ctx):
    wm, knobs, plan, lockmode = gen(rng)
    viols, info = evaluate(wm, knobs, plan, ctx)
    ctx.probes["lock_" + info["lockmode"]] += 1
    if plan["faults"]:
        ctx.probes["slow_read"] += 1
    if 0 in set(world.wm_ids(wm).values()):
        ctx.probes["id_zero_present"] += 1
    if info["top"] >= U32 - 8:
        ctx.probes["boundary_ids"] += 1
    if info["exhausted"]:
        ctx.probes["range_exhausted"] += 1
    if info["nums"] or info["exhausted"]:
        ctx.nontrivial.add(str(idx))
    files_with = len({p for p in wm["files"] if any(world.stmt_id(s[2]) is None for s in world.file_stmts(wm["files"][p]))})
    if files_with > 1:
        ctx.probes["multi_file_inserts"] += 1
    if not ctx.samples:
        ctx.samples.append({"cfg": wm["cfg"], "lock": info["lockmode"], "planted_ids": sorted(world.wm_ids(wm).values()),
                            "missing": info["missing"], "inserted": info["nums"], "exit": info["status"]})
    if rng.random() < 0.3 and not viols:
        # same tree, another enumeration order and thread count: the oracle must hold for every order
        plan2 = {"seed": rng.getrandbits(48) | 1, "perm": True, "faults": []}
        knobs2 = dict(knobs)
        knobs2["threads"] = rng.randrange(1, 5)
        v2, _ = evaluate(wm, knobs2, plan2, ctx)
        viols += v2
    return viols


def replay(scenario, ctx):
    wm = world.wm_from_json(scenario["wm"])
    vs, _ = evaluate(wm, scenario["knobs"], scenario["plan"], ctx)
    return vs


def shrink_candidates(scenario):
    from . import common
    wm = world.wm_from_json(scenario["wm"])
    for w2 in common.world_reductions(wm):
        s2 = dict(scenario)
        s2["wm"] = world.wm_to_json(w2)
        yield s2
