"""C18 - SIGINT and SIGTERM stop a run cleanly."""
import hashlib

from .. import core, scen, world
from . import common

ID = "C18"
LEVEL = "fault_enumeration"
TECHNIQUE = ("deterministic simulation: SIGINT/SIGTERM raised by the seam at operation boundaries of the real process "
             "(check and edit), termination-mode / exit-status / tree / lock oracle against a fault-free twin")
LEVEL_TEXT = ("Real signals are delivered to the real process at every operation boundary from source discovery on (thorough) or "
              "at a biased sample (quick), in both modes, for both signals, also combined with an I/O fault or a second signal. "
              "Checked: exits by itself, starts at most one more file, exit 0 only if nothing was left (never for an interrupted "
              "--check), files original-or-updated, lock covers written IDs. Sampled worlds, enumerated delivery points.")
LEVEL_NOTE = ("Trusted: raise() inside the interposed call is equivalent to asynchronous delivery at that boundary (handler runs "
              "synchronously on the calling thread); delivery between two user-space instructions that are not separated by a "
              "filesystem call is not distinguished.")
RULE = ("case = one generated project with 2-6 source files x mode (check|edit); twin run records operations; plans = "
        "sig_before/sig_after with signo 2 and 15 at operation k (quick: sampled, thorough: every k from the first source-dir "
        "operation on, plus start-up boundaries), plus signal+I/O-fault and two-signal plans. Non-trivial = signal delivered; "
        "distinct = (world, mode, k, action, signo).")
PROBES = ["signal_while_printing", "stdout_gone_with_signal", "stalled_operation_after_signal", "unreadable_files_in_tree", "check_twin_passes", "signal_in_startup", "signal_in_discovery", "signal_in_pass1", "signal_in_pass2", "signal_after_last_file",
          "signal_plus_fault", "two_signals"]
ASSUMPTIONS = ["'has begun scanning the sources' = first operation on the source directory in the trace",
               "one more source file may be started after the signal (the stop flag is polled between files)"]
DEADLINE = {"quick": 200, "thorough": 3000}


def n_cases(tier):
    return 220 if tier == "quick" else 800


def gen(rng):
    check = rng.random() < 0.45
    complete = check and rng.random() < 0.4   # every statement already has its reference: an uninterrupted --check passes
    wm = world.gen_world_model(rng, nfiles=rng.randrange(2, 7), sizes=["tiny", "tiny", "tiny", "k8", "k64"],
                               p_have=1.0 if complete else 0.35, id_hi=400, max_stmts=3, layout_p=0.0 if complete else 0.1,
                               min_missing=0 if complete else rng.choice([0, 1, 1, 2]))
    if rng.random() < 0.2:
        # in-scope files that cannot be read as text (they are reported and skipped): the stop request must be honoured
        # between them just as between any other files
        for j in range(rng.randrange(1, 4)):
            wm["extra"]["proj/src/%s_bin%d.rs" % (rng.choice(["a", "m", "z"]), j)] = {
                "t": "f", "mode": 0o644, "data": b"fn x() { info!(\"not text\"); }\n\xff\xfe\x80 binary tail\n"}
    if not check and world.cfg_uses_lock(wm["cfg"]) and rng.random() < 0.06:
        wm["lock"] = core.lock_text(0xFFFFFFFF - rng.randrange(0, 3))   # the ID range runs out during the run
    knobs = {"threads": rng.randrange(1, 5), "config_arg": rng.choice(["rel", "abs"])}
    knobs = scen.env_knobs(rng, knobs)
    if rng.random() < 0.15:
        knobs["inherit_ignored"] = rng.choice([[2], [15], [2, 15]])
    base = {"seed": rng.getrandbits(48) | 1, "perm": True, "faults": []}
    return wm, knobs, base, check


def first_source_op(ops):
    for o in ops:
        first = o.path.split(" -> ")[0]
        if first == "proj/src" or first.startswith("proj/src/"):
            return o.k
    return None


def written_ids(wm, before, after):
    out = []
    for p in wm["files"]:
        b, a = before.get(p), after.get(p)
        if b and a and a["t"] == "f":
            ins = core.explain(b["data"], a["data"])
            if ins:
                out += [n for _o, _t, n in ins]
    return out


_last_signal_k = [None]


def res_k_of_signal(plan):
    return _last_signal_k[0]


def evaluate(wm, knobs, plan, check, ctx, twin=None):
    if twin is None:
        twin = scen.exec_run(wm, check, scen.base_plan(plan), knobs, ctx)
    run = scen.exec_run(wm, check, plan, knobs, ctx)
    res = run["res"]
    # operation number at which the (first) signal was actually raised - needed for class-addressed signals
    _last_signal_k[0] = res.signals[0][1] if res.signals else None
    tops = twin["res"].ops
    K = len(tops)
    phm = scen.phases(tops)
    sigf = [f for f in plan["faults"] if f["act"].startswith("sig")]
    f0 = sigf[0]
    k = f0.get("k") or (res_k_of_signal(plan) or 0)
    k0 = first_source_op(tops) or (K + 1)
    phase = scen.phase_of(phm, k, K)
    signame = "SIGINT" if f0["signo"] == 2 else "SIGTERM"
    mode = "check" if check else "edit"
    extra = "+fault" if len(plan["faults"]) > len(sigf) else ("+2sig" if len(sigf) > 1 else "")
    if any(f["act"] == "stall" for f in plan["faults"]):
        extra = "+stall"
    if plan.get("stdout_sig"):
        extra = "+stdout-gone"
    if f0["act"] == "sig_stdout":
        extra = "+while-printing"
    tag = "%s|%s%s|%s" % (mode, signame, extra, phase)
    digest = hashlib.sha256((res.trace_digest() + core.digest_world(run["after"])).encode()).hexdigest()
    scenario = {"wm": world.wm_to_json(wm), "knobs": knobs, "plan": plan, "check": check}
    viols = []

    def V(sym, what):
        viols.append({"signature": "%s|%s|%s" % (sym, res.ending(), tag), "what": what, "scenario": scenario, "digest": digest})

    delivered = bool(res.signals)
    if not delivered:
        return viols, False
    # the signal instant lies after the start of operation k0 ("has begun scanning the sources")?
    after_k0 = (k > k0) if f0["act"] == "sig_before" else (k >= k0)
    io_fault = len(plan["faults"]) > len(sigf) and any(x in res.fired_counts() for x in ("fail", "torn"))
    changed = core.diff_worlds(run["before"], run["after"])
    states = scen.classify_files(wm, run["before"], run["after"], twin["after"])
    for s in states.values():
        ctx.states[s] += 1
    if res.mode == "timeout":
        V("hang-after-signal", "no exit within %.0fs after %s at op %d" % (core.RUN_TIMEOUT, signame, k))
        return viols, True
    if res.mode == "signaled":
        if after_k0:
            V("died-by-signal", "%s at op %d (%s, after source scanning began at op %d) terminated the process by signal %d"
              % (signame, k, phase, k0, res.status))
        elif changed:
            V("died-by-signal-with-changes", "process died during start-up but the tree changed: %s" % changed[:3])
    else:
        # (2) at most one further source file started after the signal
        opened = []
        seen_sig = False
        for ev in res.events:
            if ev[1] == "SIGNAL":
                seen_sig = True
                continue
            if seen_sig and ev[1] == "OPEN_R" and (ev[2] in wm["files"] or ev[2] in wm["extra"]) and ev[2] not in opened:
                opened.append(ev[2])
        if after_k0 and len(opened) > 1:
            V("kept-going-after-signal", "%d further source files were started after the signal: %s" % (len(opened), opened[:4]))
        # (3) exit 0 only if nothing was left to do
        read_fault = any(o.fired != "-" and ("fail" in o.fired or "torn" in o.fired) and
                         o.kind in ("READ", "OPEN_R", "STAT", "OPENDIR", "READDIR") for o in res.ops)
        if after_k0 and res.status == 0 and not (io_fault and (check or read_fault)):
            # (with an extra I/O fault only the edit half is evaluated, and only for faults on creating / writing / renaming
            # the new content: exit 0 with such a file left un-updated is wrong under C18 and under C08 alike, whereas a
            # file skipped because it could not be read (C17 demands the skip) is not work the signal interrupted)
            if check:
                left = [o for o in tops if o.kind == "OPEN_R" and o.path in wm["files"]
                        and (o.k > k or (o.k == k and f0["act"] == "sig_before"))]
                twin_pass = twin["res"].mode == "exited" and twin["res"].status == 0
                if left:
                    V("check-passed-interrupted", "--check exited 0 although %d source files had not been read when %s arrived"
                      % (len(left), signame))
                elif not twin_pass:
                    V("check-passed-interrupted", "--check exited 0 after %s although the uninterrupted run reports missing "
                      "references" % signame)
            else:
                incomplete = [p for p, s in states.items() if s not in ("updated", "unchanged-noop")]
                twin_lock = twin["after"].get("proj/Breadlog.lock")
                my_lock = run["after"].get("proj/Breadlog.lock")
                if incomplete:
                    V("edit-exit0-interrupted", "edit exited 0 after %s with work left: %s is %s"
                      % (signame, incomplete[0], states[incomplete[0]]))
                elif (twin_lock is None) != (my_lock is None):
                    V("edit-exit0-interrupted", "edit exited 0 after %s but the lock file differs from the uninterrupted run "
                      "(present=%s vs %s)" % (signame, my_lock is not None, twin_lock is not None))
    # (4) files original or complete-updated; nothing else touched
    if io_fault:
        # an additional I/O fault fired: what it may do to files and lock is the business of C07/C08/C02
        return viols, True
    bad = [p for p, s in states.items() if s in ("other", "missing")]
    if bad:
        V("torn-source", "%s is neither original nor complete updated after %s at op %d" % (bad[0], signame, k))
    if check and changed:
        V("check-modified-tree", "check run changed %s" % changed[:3])
    # (5) lock covers every ID written
    if not check and world.cfg_uses_lock(wm["cfg"]) and res.mode != "timeout":
        ids = written_ids(wm, run["before"], run["after"])
        if ids:
            lk = run["after"].get("proj/Breadlog.lock")
            val = core.read_lock(lk["data"]) if lk and lk["t"] == "f" else None
            if (val is None or val <= max(ids)) and not (val == 0 and max(ids) >= 0xFFFFFFFF - 64):
                V("lock-behind", "IDs up to %d were written but the lock file says %s" % (max(ids), val))
    return viols, True


def run_case(rng, idx, tier, ctx):
    wm, knobs, base, check = gen(rng)
    twin = scen.exec_run(wm, check, base, knobs, ctx)
    tres = twin["res"]
    if tres.mode != "exited":
        raise core.HarnessError("fault-free twin did not exit: %s" % tres.ending())
    ops = tres.ops
    K = len(ops)
    phm = scen.phases(ops)
    if check and tres.status == 0:
        ctx.probes["check_twin_passes"] += 1
    if wm["extra"]:
        ctx.probes["unreadable_files_in_tree"] += 1
    k0 = first_source_op(ops) or 1
    thorough = tier == "thorough"
    weights = dict(common.HOT)
    weights.update({"startup": 0.3, "discovery": 2, "read": 3, "read-after-mutation": 6, "lock-write": 6})
    plans = common.enumerate_plans(rng, ops, phm, ["sig_before", "sig_after"], tier, quick_n=22, base=base, signos=(2, 15),
                                   weights=weights)
    # combined plans
    extra = []
    pool = [o for o in ops if o.k >= k0]
    for _ in range(3 if not thorough else 30):
        if not pool:
            break
        o = rng.choice(pool)
        o2 = rng.choice(pool)
        sig = {"k": o.k, "act": rng.choice(["sig_before", "sig_after"]), "signo": rng.choice([2, 15])}
        if rng.random() < 0.5 and o2.k != o.k:
            acts = scen.applicable_actions(o2, ["fail"])
            if acts:
                extra.append(("fault", {"seed": base["seed"], "perm": True,
                                        "faults": [sig, {"k": o2.k, "act": "fail", "errno": rng.choice(scen.errnos_for(o2))}]}))
        elif o2.k != o.k:
            extra.append(("2sig", {"seed": base["seed"], "perm": True,
                                   "faults": [sig, {"k": o2.k, "act": "sig_after", "signo": rng.choice([2, 15])}]}))
    # directed: one file's rename fails, then a stop signal right after a later rename attempt / read / write
    nren = sum(1 for o in ops if o.kind == "RENAME")
    if not check and nren >= 1:
        for _ in range(2 if not thorough else 12):
            f1 = {"from": 1, "kinds": [rng.choice(["RENAME", "RENAME", "WRITE", "OPEN_W"])], "pre": "tmp/", "nth": rng.randrange(1, nren + 1),
                  "act": "fail", "errno": rng.choice(["EACCES", "EXDEV", "ENOSPC"])}
            f2 = {"from": 1, "kinds": [rng.choice(["RENAME", "RENAME", "OPEN_R", "WRITE", "UNLINK"])], "nth": rng.randrange(1, nren + 2),
                  "act": rng.choice(["sig_after", "sig_before"]), "signo": rng.choice([2, 15])}
            extra.append(("fault", {"seed": base["seed"], "perm": True, "faults": [f2, f1]}))
    if rng.random() < (0.12 if not thorough else 0.5) and pool:
        # slow storage: the stop request arrives and the operation in progress then takes four seconds to complete
        o = rng.choice(pool)
        extra.append(("stall", {"seed": base["seed"], "perm": True,
                                "faults": [{"k": o.k, "act": "sig_before", "signo": rng.choice([2, 15])},
                                           {"k": o.k, "act": "stall", "frac": 4.0}]}))
    near_top = wm.get("lock") is not None and (core.read_lock(wm["lock"]) or 0) >= 0xFFFFFFFF - 64
    pass2 = [o for o in ops if phm.get(o.k) in ("scratch-open", "scratch-write", "rename", "after-rename", "read-after-mutation")]
    if not check and pass2 and not any("_bin" in p for p in wm["extra"]) and not near_top and rng.random() < (0.5 if not thorough else 1.0):
        # breadlog | tee log, Ctrl-C: the reader of the pipe dies of the same signal, so from the stop request on nothing can
        # be printed any more.  (Only worlds in which the tool has nothing to say between the request and its exit: no
        # unreadable files, ID range not running out - dying on such a line is the publish window of known finding F4.)
        for _ in range(2 if not thorough else 8):
            o = rng.choice(pass2)
            extra.append(("stdout", {"seed": base["seed"], "perm": True, "stdout_sig": True,
                                     "faults": [{"k": o.k, "act": rng.choice(["sig_before", "sig_after"]), "signo": rng.choice([2, 15])}]}))
    nlines = len(tres.stdout.splitlines())
    if nlines:
        # the signal arrives while a log line is being written (the printing thread is inside its stdout write): whatever a
        # handler does must be safe there
        for n in (rng.sample(range(1, nlines + 1), min(nlines, 3)) if not thorough else range(1, nlines + 1)):
            extra.append(("inprint", {"seed": base["seed"], "perm": True,
                                      "faults": [{"act": "sig_stdout", "nth": n, "signo": rng.choice([2, 15])}]}))
    if not ctx.samples:
        ctx.samples.append({"mode": "check" if check else "edit", "files": sorted(wm["files"]), "k0": k0, "K": K,
                            "twin_ops": [o.short() for o in ops][:50], "first_plans": [p["faults"] for p in plans[:4]]})
    viols = []
    last_src = max([o.k for o in ops if o.path in wm["files"] and o.kind in ("OPEN_R", "READ")], default=0)
    for name, plan in [("single", p) for p in plans] + extra:
        vs, delivered = evaluate(wm, knobs, plan, check, ctx, twin)
        f0 = plan["faults"][0]
        k = f0.get("k") or (_last_signal_k[0] or 0)
        ph = scen.phase_of(phm, k, K)
        if delivered:
            ctx.nontrivial.add("%d.%s.%d.%s.%d.%s" % (idx, "c" if check else "e", k, f0["act"], f0["signo"], name))
            ctx.sites.add("%s/%s/%s/%s" % ("check" if check else "edit", ph, f0["act"], f0["signo"]))
            if ph == "startup":
                ctx.probes["signal_in_startup"] += 1
            elif ph == "discovery":
                ctx.probes["signal_in_discovery"] += 1
            elif ph == "read":
                ctx.probes["signal_in_pass1"] += 1
            elif ph in ("scratch-open", "scratch-write", "rename", "after-rename", "read-after-mutation", "scratch-cleanup"):
                ctx.probes["signal_in_pass2"] += 1
            if k >= last_src:
                ctx.probes["signal_after_last_file"] += 1
            if name == "fault":
                ctx.probes["signal_plus_fault"] += 1
            if name == "2sig":
                ctx.probes["two_signals"] += 1
            if name == "stall":
                ctx.probes["stalled_operation_after_signal"] += 1
            if name == "stdout":
                ctx.probes["stdout_gone_with_signal"] += 1
            if name == "inprint":
                ctx.probes["signal_while_printing"] += 1
        viols += vs
    return viols


def replay(scenario, ctx):
    wm = world.wm_from_json(scenario["wm"])
    vs, _ = evaluate(wm, scenario["knobs"], scenario["plan"], scenario["check"], ctx)
    return vs


def shrink_candidates(scenario):
    if len(scenario["plan"]["faults"]) > 1:
        sigs = [f for f in scenario["plan"]["faults"] if f["act"].startswith("sig")]
        s2 = dict(scenario)
        p2 = dict(scenario["plan"])
        p2["faults"] = sigs[:1]
        s2["plan"] = p2
        yield s2
        return
    for s in common.shrink_single(scenario, check=scenario["check"]):
        yield s
