"""C05 - check mode's verdict is exact and predicts what edit mode does."""
import collections
import hashlib
import os

from .. import core, corpus, scen, world

ID = "C05"
LEVEL = "exploration"
TECHNIQUE = ("deterministic simulation of run pairs of the real binary on two copies of one seeded world (--check on one, edit on the "
             "other, same enumeration order); relational oracle: reported (file,line,column) multiset, total and exit status vs. the "
             "byte diff the edit run produces")
LEVEL_TEXT = ("For each sampled world the documented report lines of --check are parsed and compared, as a multiset of (file, line, "
              "character column), with the places where the edit run on an identical copy inserted tokens (offsets converted "
              "independently by counting newlines and code points, also with tabs, CRLF and 2/3/4-byte characters before the "
              "statement); totals, the exit status rule and the printed insert count are checked too. Inputs sampled: exploration.")
LEVEL_NOTE = ("Trusted: the documented line formats ('Missing reference in file F, line L, column C', 'Total missing references (all "
              "files): N', 'Num. inserted reference(s): N'); an unrecognisable report is a harness error, not a violation.")
RULE = ("case = generated tree (statement lines decorated with tabs / multi-byte / same-line prefixes, CRLF variants) or 1-3 real "
        "corpus files; 2 runs (check, edit). Non-trivial = at least one missing reference; distinct = case index.")
PROBES = ["tmpdir_missing_edit_refused", "unreadable_neighbour", "multibyte_before_stmt", "tab_indent", "crlf_file", "corpus_world", "no_missing_refs", "structured", "multi_file"]
ASSUMPTIONS = ["all in-scope files are readable", "check and edit see the same enumeration order (same plan seed)"]
DEADLINE = {"quick": 200, "thorough": 3000}

PREFIXES = ["\t", "\t\t", "  /* é日本𝔘 */ ", "let _ü = \"ßß\"; ", "\t/* tab */\t", "if state == \"é\" { } ", " ‎ "]


def n_cases(tier):
    return 2500 if tier == "quick" else 40000


def gen(rng):
    tags = set()
    if rng.random() < 0.7:
        wm = world.gen_world_model(rng, use_cache=rng.choice([False, None]), nfiles=rng.randrange(1, 5),
                                   sizes=["tiny", "tiny", "k8"], p_have=rng.choice([0.4, 0.4, 1.0]), id_hi=300, max_stmts=5,
                                   min_missing=rng.choice([0, 0, 1, 1, 2]), crlf_p=0.25,
                                   lock=rng.choice(["absent", "absent", "ahead"]),
                                   special_ids=rng.choice([None, [0], [0]]), unicode_p=rng.choice([0, 0.2]),
                                   many=rng.choice([255, 256, 256, 257, 512, 1000]) if rng.random() < 0.04 else None,
                                   many_files=rng.choice([255, 256, 257]) if rng.random() < 0.01 else None, big_p=0.01)
        for p, segs in wm["files"].items():
            for s in segs:
                if s[0] == "stmt" and rng.random() < 0.6 and s[2].startswith("    "):
                    pre = rng.choice(PREFIXES)
                    s[2] = pre + s[2][4:]
                    if any(ord(c) > 127 for c in pre):
                        tags.add("multibyte_before_stmt")
                    if "\t" in pre:
                        tags.add("tab_indent")
            if any("\r\n" in s[-1] for s in segs):
                tags.add("crlf_file")
    else:
        tags.add("corpus_world")
        extra = {}
        for i, (rel, data, _hl) in enumerate(corpus.pick(rng, rng.randrange(1, 4), want_log=0.9)):
            if rng.random() < 0.3:
                data, _ = corpus.mutate(rng, data, nops=1, utf8_only=True)
            extra["proj/src/c%d_%s" % (i, rel.replace("/", "_"))] = {"t": "f", "mode": 0o644, "data": data}
        wm = {"cfg": {"source_dir": "./src", "structured": rng.random() < 0.4, "use_cache": False}, "files": {}, "extra": extra,
              "lock": None}
    if rng.random() < 0.1:
        # "given at least one readable in-scope file": an unreadable one beside them changes nothing about the verdict
        wm["extra"]["proj/src/not_text.rs"] = {"t": "f", "mode": 0o644, "data": b"fn x() { info!(\"binary\"); }\n\xff\xfe\x80\n"}
        tags.add("unreadable_neighbour")
    if wm["cfg"].get("structured"):
        tags.add("structured")
    knobs = {"threads": rng.randrange(1, 5), "config_arg": rng.choice(["rel", "abs", "dotrel"]), "cwd": "proj"}
    knobs = scen.env_knobs(rng, knobs)
    if rng.random() < 0.04:
        # TMPDIR names a directory that does not exist: the edit cannot put anything in place and has to say so; if it claims
        # success all the same, its insertions must still be what --check announced
        knobs["tmpdir"] = "no_such_tmpdir"
        knobs.pop("tmpdir_make", None)
        tags.add("tmpdir_missing")
    plan = {"seed": rng.getrandbits(48) | 1, "perm": True, "faults": []}
    return wm, knobs, plan, tags


def line_col(data, off):
    """1-based line and character column of byte offset `off` in `data` (independent of the tool)."""
    head = data[:off]
    line = head.count(b"\n") + 1
    last = head.rfind(b"\n")
    col = len(head[last + 1:].decode("utf-8", "replace")) + 1
    return line, col


def evaluate(wm, knobs, plan, ctx):
    chk = scen.exec_run(wm, True, plan, knobs, ctx)
    edt = scen.exec_run(wm, False, plan, knobs, ctx)
    cres, eres = chk["res"], edt["res"]
    if cres.mode == "timeout" or eres.mode == "timeout":
        raise core.HarnessError("timeout in C05")
    style = "structured" if wm["cfg"].get("structured") else "unstructured"
    digest = hashlib.sha256((cres.trace_digest() + eres.trace_digest() + core.digest_world(edt["after"])).encode()).hexdigest()
    scenario = {"wm": world.wm_to_json(wm), "knobs": knobs, "plan": plan}
    viols = []

    def V(sym, what):
        viols.append({"signature": "%s|%s" % (sym, style), "what": what, "scenario": scenario, "digest": digest})

    if cres.mode != "exited" or eres.mode != "exited":
        V("abnormal-termination", "check ended %s, edit ended %s" % (cres.ending(), eres.ending()))
        return viols, 0
    # expected from the edit diff
    expected = collections.Counter()
    ntok = 0
    srcs = sorted(set(wm["files"]) | {p for p, e in wm["extra"].items() if p.startswith("proj/src/") and p.endswith(".rs")
                                       and p != "proj/src/not_text.rs" and e["t"] == "f"})
    for p in srcs:
        b = edt["before"][p]["data"]
        a = edt["after"][p]["data"]
        ins = core.explain(b, a)
        if ins is None:
            V("not-insert-only", "%s changed by something other than token insertion" % p)
            return viols, 0
        for off, _tok, _n in ins:
            expected[(p,) + line_col(b, off)] += 1
            ntok += 1
    if knobs.get("tmpdir") == "no_such_tmpdir" and eres.status != 0:
        ctx.probes["tmpdir_missing_edit_refused"] += 1
        if ntok:
            V("edit-failed-but-inserted", "edit exited %d with TMPDIR missing and still changed %d places" % (eres.status, ntok))
        return viols, 0
    rep = core.parse_report(cres.stdout + "\n" + cres.stderr)
    erep = core.parse_report(eres.stdout + "\n" + eres.stderr)
    if rep["total"] is None:
        raise core.HarnessError("--check printed no 'Total missing references (all files)' line: report format not recognised "
                                "(exit %s)" % cres.status)
    proj = "proj"
    got = collections.Counter()
    for f, ln, col in rep["missing"]:
        rel = os.path.normpath(os.path.join(proj, f)) if not os.path.isabs(f) else None
        if rel is None:
            # absolute path: strip everything up to /proj/
            i = f.find("/proj/")
            rel = os.path.normpath(f[i + 1:]) if i >= 0 else f
        got[(rel, ln, col)] += 1
    if got != expected:
        only_c = sorted((got - expected).elements())[:3]
        only_e = sorted((expected - got).elements())[:3]
        V("location-mismatch", "--check reports %d locations, edit inserts at %d; only reported: %s; only edited: %s"
          % (sum(got.values()), ntok, only_c, only_e))
    # against the model: every planted statement without an ID is a recognised statement lacking a reference - check and
    # edit agreeing with each other is not enough when both overlook the same statements
    per_file = collections.Counter(k[0] for k in expected.elements())
    for p in sorted(wm["files"]):
        want = sum(1 for s in world.file_stmts(wm["files"][p]) if world.stmt_id(s[2]) is None)
        if per_file[p] < want and eres.status == 0:     # (more: a decoy that a custom macro list makes a real statement)
            V("overlooked-statements", "%s (%d B) has %d planted statements without reference; --check reported %d there, edit inserted %d"
              % (p, len(edt["before"][p]["data"]), want, sum(v for k, v in got.items() if k[0] == p), per_file[p]))
            break
    if rep["total"] != ntok:
        V("total-mismatch", "--check total %d, edit inserted %d tokens" % (rep["total"], ntok))
    if (cres.status != 0) != (ntok > 0):
        V("exit-status-wrong", "--check exit %d with %d missing references" % (cres.status, ntok))
    if erep["inserted"] is not None and erep["inserted"] != ntok:
        V("edit-count-mismatch", "edit printed %d inserted, %d tokens in the tree" % (erep["inserted"], ntok))
    if erep["inserted"] is None and ntok > 0:
        V("edit-count-mismatch", "edit inserted %d tokens but printed no count" % ntok)
    if eres.status != 0 and knobs.get("tmpdir") != "no_such_tmpdir":
        V("edit-failed", "fault-free edit run exited %d" % eres.status)
    return viols, ntok


def run_case(rng, idx, tier, ctx):
    wm, knobs, plan, tags = gen(rng)
    viols, ntok = evaluate(wm, knobs, plan, ctx)
    for t in tags:
        ctx.probes[t] += 1
    if ntok:
        ctx.nontrivial.add(str(idx))
    else:
        ctx.probes["no_missing_refs"] += 1
    if len(wm["files"]) + len([p for p in wm["extra"] if p.endswith(".rs")]) > 1:
        ctx.probes["multi_file"] += 1
    if not ctx.samples:
        ctx.samples.append({"files": sorted(wm["files"]) + sorted(wm["extra"]), "tokens": ntok, "tags": sorted(tags), "knobs": knobs})
    return viols


def replay(scenario, ctx):
    wm = world.wm_from_json(scenario["wm"])
    vs, _ = evaluate(wm, scenario["knobs"], scenario["plan"], ctx)
    return vs


def shrink_candidates(scenario):
    from . import common
    wm = world.wm_from_json(scenario["wm"])
    for w2 in common.world_reductions(wm):
        s2 = dict(scenario)
        s2["wm"] = world.wm_to_json(w2)
        yield s2
    extra = scenario["wm"]["extra"]
    names = [p for p in sorted(extra) if p.startswith("proj/src/c")]
    if len(names) > 1:
        for p in names:
            s2 = dict(scenario)
            wm2 = dict(scenario["wm"])
            wm2["extra"] = {k: v for k, v in extra.items() if k != p}
            s2["wm"] = wm2
            yield s2
