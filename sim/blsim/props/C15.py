"""C15 - only in-scope files are scanned; paths resolve against the config file."""
import hashlib
import os

from .. import core, scen, world

ID = "C15"
LEVEL = "exploration"
TECHNIQUE = ("deterministic simulation of check/edit runs of the real binary on seeded directory layouts (look-alike extensions, "
             "directories named *.rs, symlinks in and out of the tree, files beside the config) from several working directories "
             "with permuted enumeration order; files opened/changed at the libc seam vs. an independent in-scope model")
LEVEL_TEXT = ("The set of files the process opens for reading (observed at the seam) must equal an independent 15-line model of "
              "'regular files below the resolved source_dir with an exactly matching extension'; after an edit exactly those files "
              "changed (each by token insertion), symlinks and everything outside are untouched, --check names exactly those files, "
              "the lock lands next to the config, and the outcome is identical from every working directory. Sampled layouts: "
              "exploration.")
LEVEL_NOTE = ("Trusted: Rust's Path::extension semantics restated in the model (text after the last dot; a name that is only a "
              "leading-dot stem has none); symlinks are never in scope (files or directories).")
RULE = ("case = generated layout (depth <= 4, 10-25 entries incl. look-alikes and symlinks) x extension list x source_dir form "
        "(./src, src, a/b, absolute) ; runs: check + edit from the project dir, then edit again from 1-2 other working "
        "directories (relative and absolute -c); then one sub-directory unreadable, TMPDIR on another file system, and (35 %) one "
        "sub-directory of the source tree as the mount point of another file system (other st_dev, EXDEV across it). Non-trivial = layout with at least one out-of-scope decoy carrying a missing "
        "reference and one in-scope file; distinct = case index.")
PROBES = ["interrupted_edit", "config_file_is_symlink", "files_older_than_lock", "fifo_named_rs", "hard_link_out_of_scope", "readdir_without_types", "mount_point_in_tree", "config_via_symlink", "exdev_run", "stem_siblings", "unreadable_subdir", "config_in_subdir", "symlink_to_file", "symlink_to_dir", "symlink_outside", "dir_named_rs", "lookalike_ext", "abs_source_dir", "cwd_outside",
          "cwd_root_abs", "empty_scope", "multi_ext", "hidden_rs", "nested_depth4"]
ASSUMPTIONS = ["source_dir itself is a real directory (not a symlink)"]
DEADLINE = {"quick": 200, "thorough": 3000}


def n_cases(tier):
    return 2000 if tier == "quick" else 30000


def stmt(mk):
    return ("fn f() {\n    info!(\"%s hello\");\n}\n" % mk).encode()


def rust_extension(name):
    """std::path::Path::extension: None if no dot, or if the only dot is the first character."""
    if name in (".", ".."):
        return None
    i = name.rfind(".")
    if i <= 0:
        return None
    return name[i + 1:]


def gen(rng):
    tags = set()
    srcform = rng.choice(["./src", "src", "a/b", "abs", "./src/", "../src", "../a/b", ".gen/src", "./.hidden", "..", "src/../code"])
    # (directory holding the config, source_dir as written) -> source dir relative to proj/
    cfgdir = ""
    if srcform in ("../src", "../a/b", ".."):
        cfgdir = "conf"
    srcrel = {"./src": "src", "src": "src", "a/b": "a/b", "abs": "src", "./src/": "src", "../src": "src", "../a/b": "a/b",
              ".gen/src": ".gen/src", "./.hidden": ".hidden", "..": "", "src/../code": "code"}[srcform]
    if srcform == "abs":
        tags.add("abs_source_dir")
    exts = rng.choice([None, None, ["rs"], ["rs", "rsx"], ["RS"], ["txt", "rs"], ["zzz"], ["rs", "bak"], ["rs", "RS"], ["RS", "rs"],
                       ["rs", "RS", "inc"], ["Rs", "rs", "rS"], ["rs", "rs"], ["b", "a", "rs", "Z"], ["rsx", "Rs", "bak", "rs", "txt"]])
    if exts and len(exts) > 1:
        tags.add("multi_ext")
    extra = {}
    n = [0]

    def mk():
        n[0] += 1
        return "mk%03dq" % n[0]

    base = ("proj/" + srcrel).rstrip("/")
    dirs = ["", "net", "net/tls", "net/tls/deep", "net/tls/deep/er", "util", "d.rs", "x.rsx", ".hid", "v1.2", "gen.d", "example.com",
            "a/b/c/d/e/f/g/h/i/j/k/l", "with space", "ünï", "n" * 200, "-dash", "~tilde"]
    names = ["main.rs", "lib.rs", "a.RS", "a.rsx", "a.rs.bak", "rs", ".rs", "a.", "a.rs~", "b.txt", ".hidden.rs", "a.b.rs", "Makefile",
             "c.Rs", "rsfile", "x.rs.rs", "notes.bak", "a.xrs", "b.srs", "c.ttxt", "d.r", "e.s", "with space.rs", "ünï.rs", "-.rs",
             ("l" * 240) + ".rs", "a..rs", "a.rs.", "A.rs", "a.rS"]
    for _ in range(rng.randrange(6, 16)):
        d = rng.choice(dirs)
        nm = rng.choice(names)
        p = os.path.join(base, d, nm) if d else os.path.join(base, nm)
        if p in extra:
            continue
        extra[p] = {"t": "f", "mode": rng.choice([0o644, 0o644, 0o600, 0o755, 0o444, 0o555, 0o400]), "data": stmt(mk())}
        if d.startswith("d.rs"):
            tags.add("dir_named_rs")
        if d.count("/") >= 3:
            tags.add("nested_depth4")
        if nm in ("a.RS", "a.rsx", "a.rs.bak", "rs", ".rs", "a.", "a.rs~", "c.Rs", "rsfile", "a.xrs", "b.srs", "c.ttxt", "d.r", "e.s"):
            tags.add("lookalike_ext")
        if nm == ".hidden.rs":
            tags.add("hidden_rs")
    # siblings that editors, version control and crashed tools leave next to source files: same stem, other extension
    for p0 in [x for x in sorted(extra) if x.endswith(".rs") and extra[x]["t"] == "f"][:3]:
        if rng.random() < 0.5:
            stem = p0[:-3]
            for suffix in rng.sample([".tmp", ".bak", ".rs~", ".orig", ".rs.orig", ".swp", ".new", ".rs.tmp"], 2):
                q = stem + suffix if not suffix.startswith(".rs") else p0 + suffix[3:]
                if q not in extra:
                    extra[q] = {"t": "f", "mode": 0o644, "data": b"// sibling of a source file; not in scope\n" + stmt(mk())}
            tags.add("stem_siblings")
    # always at least one plain in-scope candidate
    extra.setdefault(os.path.join(base, "main.rs"), {"t": "f", "mode": 0o644, "data": stmt(mk())})
    # files beside the config but outside source_dir, and in outside/
    extra["proj/build.rs"] = {"t": "f", "mode": 0o644, "data": stmt(mk())}
    extra["proj/other/x.rs"] = {"t": "f", "mode": 0o644, "data": stmt(mk())}
    extra["outside/other.rs"] = {"t": "f", "mode": 0o644, "data": stmt(mk())}
    extra["outside/odir/in_odir.rs"] = {"t": "f", "mode": 0o644, "data": stmt(mk())}
    if srcrel != "src" and srcrel != "":
        extra["proj/src/decoy.rs"] = {"t": "f", "mode": 0o644, "data": stmt(mk())}
    # look-alike directories that a sloppy path resolution would pick instead of the configured one
    if srcrel != "":
        for look in ("proj/conf/src/look.rs", "proj/conf/a/b/look.rs", "proj/gen/src/look.rs", "proj/hidden/look.rs",
                     "proj/conf/look.rs"):
            if not look.startswith(base + "/"):
                extra[look] = {"t": "f", "mode": 0o644, "data": stmt(mk())}
    if srcform == "src/../code":
        extra["proj/src/keep.txt"] = {"t": "f", "mode": 0o644, "data": b"the src directory must exist for src/../code to resolve\n"}
    if cfgdir:
        tags.add("config_in_subdir")
        # the configuration directory can also be reached through a symbolic link elsewhere: "<link>/../src" must be
        # resolved the way the kernel does it (to proj/src), not by folding the text (to outside/src)
        extra["outside/link_conf"] = {"t": "l", "target": "../proj/" + cfgdir}
    if not cfgdir and srcform in ("./src", "src", "a/b", "./src/"):
        # the configuration *file* reached through a symbolic link in another directory (a configuration shared between
        # crates): its location - and with it source_dir and the lock - is where the link is, not where it points
        extra["outside/cfg_link.yaml"] = {"t": "l", "target": "../proj/Breadlog.yaml"}
    # a source-like tree under the *working directory* of the other-cwd runs: must never be touched
    extra["outside/src/cwd_decoy.rs"] = {"t": "f", "mode": 0o644, "data": stmt(mk())}
    extra["outside/a/b/cwd_decoy.rs"] = {"t": "f", "mode": 0o644, "data": stmt(mk())}
    # symlinks
    depth = srcrel.count("/") + 2
    up = "/".join([".."] * depth)
    if rng.random() < 0.6:
        extra[os.path.join(base, "link.rs")] = {"t": "l", "target": "main.rs"}
        tags.add("symlink_to_file")
    if rng.random() < 0.5:
        extra[os.path.join(base, "ext_link.rs")] = {"t": "l", "target": up + "/outside/other.rs"}
        tags.add("symlink_outside")
    if rng.random() < 0.5:
        extra[os.path.join(base, "linkdir")] = {"t": "l", "target": up + "/outside/odir"}
        tags.add("symlink_to_dir")
    if rng.random() < 0.3:
        extra[os.path.join(base, "selfdir")] = {"t": "l", "target": "."}
        tags.add("symlink_to_dir")
    if rng.random() < 0.3:
        extra[os.path.join(base, "sib_link.rs")] = {"t": "l", "target": up + "/proj/build.rs"}
        tags.add("symlink_to_file")
    if rng.random() < 0.2:
        # something that is named like a source file but is not a regular file
        extra[os.path.join(base, rng.choice(["pipe.rs", "net/ctl.rs", "zz_fifo.rs"]))] = {"t": "p"}
        tags.add("fifo_named_rs")
    if rng.random() < 0.25:
        # other (hard-linked) names of the plain in-scope file outside the scope: a cp -al snapshot, an editor's .orig
        extra["outside/snapshot/main.rs"] = {"t": "h", "to": os.path.join(base, "main.rs")}
        extra[os.path.join(base, "main.rs.orig")] = {"t": "h", "to": os.path.join(base, "main.rs")}
        tags.add("hard_link_out_of_scope")
    cfg = {"source_dir": "@ROOT@/proj/src" if srcform == "abs" else srcform, "structured": rng.random() < 0.3,
           "use_cache": rng.choice([True, None, False]), "extensions": exts}
    wm = {"cfg": cfg, "files": {}, "extra": extra, "lock": None}
    if cfgdir:
        wm["cfg_name"] = cfgdir + "/Breadlog.yaml"
    if cfg["use_cache"] is not False and rng.random() < 0.2:
        # an earlier run left its lock, and the source files are older than it (moved in with mv / cp -p / tar x / a checkout
        # that wrote the sources first): scope has nothing to do with file times
        lockp = "proj/" + (cfgdir + "/" if cfgdir else "") + "Breadlog.lock"
        extra[lockp] = {"t": "f", "mode": 0o644, "data": core.lock_text(rng.randrange(3000, 9000))}
        now = 1790000000
        wm["mtimes"] = {q: now - rng.choice([86400 * 2, 86400 * 400, 3600]) for q, e in extra.items() if e["t"] == "f" and q != lockp}
        wm["mtimes"][lockp] = now
        tags.add("files_older_than_lock")
    seed = rng.getrandbits(40) | 1
    if rng.random() < 0.15:
        wm["dt_unknown"] = True      # readdir does not tell the entry type on this file system
        tags.add("readdir_without_types")
    return wm, seed, tags, base


def model_scope(wm, base):
    exts = wm["cfg"].get("extensions")
    exts = ["rs"] if exts is None else exts
    links = {p for p, e in wm["extra"].items() if e["t"] == "l"}
    out = set()
    for p, e in wm["extra"].items():
        if e["t"] != "f" or not p.startswith(base + "/"):
            continue
        # reached through real directories only
        parts = p.split("/")
        if any("/".join(parts[:i]) in links for i in range(1, len(parts))):
            continue
        ext = rust_extension(parts[-1])
        if ext is not None and ext in exts:
            out.add(p)
    return out


def opened_for_read(res):
    import os as _os
    return {_os.path.normpath(o.path) for o in res.ops if o.kind == "OPEN_R" and o.ret >= 0
            and core.path_class(o.path) in ("proj", "outside")
            and not o.path.endswith((".yaml", ".yml")) and "Breadlog.lock" not in o.path}


def evaluate(wm, seed, base, ctx, cwds=(("outside", "rel"), ("/", "abs"))):
    scope = model_scope(wm, base)
    scenario = {"wm": world.wm_to_json(wm), "seed": seed, "base": base}
    viols = []
    dg = hashlib.sha256()
    plan = {"seed": seed, "perm": True, "faults": []}

    def V(sym, what, tag=""):
        viols.append({"signature": "%s%s" % (sym, ("|" + tag) if tag else ""), "what": what, "scenario": scenario, "digest": None})

    cfgname = wm.get("cfg_name", "Breadlog.yaml")
    lockpath = "proj/" + (cfgname.rsplit("/", 1)[0] + "/" if "/" in cfgname else "") + "Breadlog.lock"
    knobs0 = {"cwd": "proj", "config_arg": "rel", "threads": 2, "config_name": cfgname, "dt_unknown": bool(wm.get("dt_unknown"))}
    # --check from the project directory
    chk = scen.exec_run(wm, True, plan, knobs0, ctx)
    dg.update(chk["res"].trace_digest().encode())
    cres = chk["res"]
    if cres.mode != "exited":
        V("abnormal-termination", "check ended %s" % cres.ending())
        return viols, scope
    rd = opened_for_read(cres)
    if rd != scope and not (not scope and not rd):
        V("read-set-differs", "check opened %s that are out of scope and skipped %s that are in scope"
          % (sorted(rd - scope)[:4], sorted(scope - rd)[:4]), "check")
    if scope:
        rep = core.parse_report(cres.stdout + cres.stderr)
        named = set()
        for f, _l, _c in rep["missing"]:
            if os.path.isabs(f):
                i = f.find("/proj/")
                named.add(os.path.normpath(f[i + 1:]) if i >= 0 else f)
            else:
                named.add(os.path.normpath(os.path.join("proj", f)))
        if named != scope:
            V("report-set-differs", "--check names %s; in scope: %s" % (sorted(named ^ scope)[:4], len(scope)))
    else:
        if cres.status == 0:
            V("empty-scope-accepted", "no in-scope file but --check exited 0")
    if core.diff_worlds(chk["before"], chk["after"]):
        V("check-modified-tree", "%s" % core.diff_worlds(chk["before"], chk["after"])[:3])
    # edit from the project directory, then from other working directories
    results = []
    runs = [("proj", "rel", None)] + [(c, a, None) for c, a in cwds]
    if "outside/link_conf" in wm["extra"]:
        runs.append(("outside", "rel", "link_conf/Breadlog.yaml"))
        runs.append(("/", "abs", "@ROOT@/outside/link_conf/Breadlog.yaml"))
    for cwd, arg, override in runs:
        knobs = {"cwd": cwd, "config_arg": arg, "threads": 2, "config_name": cfgname, "dt_unknown": bool(wm.get("dt_unknown"))}
        if override:
            knobs["config_override"] = override
            ctx.probes["config_via_symlink"] += 1
        run = scen.exec_run(wm, False, plan, knobs, ctx)
        res = run["res"]
        dg.update(res.trace_digest().encode())
        tag = "cwd=%s" % ("project" if cwd == "proj" else "other")
        if res.mode != "exited":
            V("abnormal-termination", "edit ended %s" % res.ending(), tag)
            continue
        rd = opened_for_read(res)
        if rd != scope:
            V("read-set-differs", "edit opened %s that are out of scope and skipped %s that are in scope"
              % (sorted(rd - scope)[:4], sorted(scope - rd)[:4]), tag)
        changed = core.diff_worlds(run["before"], run["after"], ignore=("tmp",))
        lock_expected = world.cfg_uses_lock(wm["cfg"]) and bool(scope)
        for p, how in changed:
            if p == lockpath and how in ("added", "changed") and world.cfg_uses_lock(wm["cfg"]):
                continue
            if p in scope and how == "changed":
                continue
            if p.endswith("Breadlog.lock"):
                V("lock-in-wrong-place", "%s %s" % (p, how), tag)
            else:
                V("out-of-scope-path-changed", "%s %s (in-scope model has %d files)" % (p, how, len(scope)), tag)
        for p in sorted(scope):
            b, a = run["before"][p], run["after"].get(p)
            if a is None or a["t"] != "f":
                V("in-scope-file-vanished", p, tag)
                continue
            ins = core.explain(b["data"], a["data"])
            if ins is None:
                V("not-insert-only", p, tag)
            elif len(ins) != 1:
                V("in-scope-file-not-edited", "%s has a statement without reference but received %d tokens" % (p, len(ins)), tag)
        if lock_expected and lockpath not in run["after"]:
            V("lock-missing-next-to-config", "lock in use, %d files edited, but no %s" % (len(scope), lockpath), tag)
        if not scope and res.status == 0:
            V("empty-scope-accepted", "no in-scope file but edit exited 0", tag)
        if scope and res.status != 0:
            V("edit-failed", "edit exited %d on a fault-free run" % res.status, tag)
        results.append((cwd, core.digest_world({p: e for p, e in run["after"].items()
                                                if not p.startswith("tmp") and not p.endswith("Breadlog.yaml")})))
    if len({d for _c, d in results}) > 1:
        V("result-depends-on-cwd", "post-state digests differ between working directories: %s" % [c for c, _ in results])
    for v in viols:
        v["digest"] = dg.hexdigest()
    return viols, scope


def evaluate_unreadable_dir(wm, seed, base, nth, ctx):
    """One sub-directory of the source tree cannot be opened (EACCES on its opendir): the files below it are out of reach,
    every other in-scope file must still be read and edited."""
    scope = model_scope(wm, base)
    plan = {"seed": seed, "perm": True, "faults": [{"from": 1, "kinds": ["OPENDIR"], "pre": base, "nth": nth, "act": "fail",
                                                    "errno": "EACCES"}]}
    cfgname = wm.get("cfg_name", "Breadlog.yaml")
    run = scen.exec_run(wm, False, plan, {"cwd": "proj", "config_arg": "rel", "threads": 2, "config_name": cfgname, "dt_unknown": bool(wm.get("dt_unknown"))}, ctx)
    res = run["res"]
    failed = [os.path.normpath(o.path) for o in res.ops if o.kind == "OPENDIR" and o.ret < 0 and o.fired != "-"]
    if not failed or res.mode != "exited":
        return []
    ctx.probes["unreadable_subdir"] += 1
    d = failed[0]
    if d == base:
        return []       # the source directory itself: nothing can be expected
    expected = {p for p in scope if not p.startswith(d + "/")}
    scenario = {"wm": world.wm_to_json(wm), "seed": seed, "base": base, "opendir_nth": nth}
    dg = hashlib.sha256((res.trace_digest() + core.digest_world(run["after"])).encode()).hexdigest()
    viols = []
    rd = opened_for_read(res)
    if rd != expected:
        viols.append({"signature": "read-set-differs|unreadable-subdir",
                      "what": "sub-directory %s could not be opened; skipped although reachable: %s; opened although out of scope: %s"
                              % (d, sorted(expected - rd)[:4], sorted(rd - expected)[:4]), "scenario": scenario, "digest": dg})
    for p in sorted(expected):
        b, a = run["before"][p], run["after"].get(p)
        ins = core.explain(b["data"], a["data"]) if a is not None and a["t"] == "f" else None
        if not ins:
            viols.append({"signature": "in-scope-file-not-edited|unreadable-subdir",
                          "what": "%s is reachable (only %s is unreadable) but was not edited" % (p, d), "scenario": scenario, "digest": dg})
            break
    return viols


def evaluate_mount(wm, seed, base, pick, ctx):
    """One sub-directory of the source tree is the mount point of another file system (its entries report another st_dev,
    renames across its boundary fail with EXDEV).  --check must still read exactly the in-scope files, those below the mount
    point included; an edit leaves everything out of scope alone whatever it makes of the failing renames."""
    scope = model_scope(wm, base)
    dirs = sorted({os.path.dirname(p) for p in scope if os.path.dirname(p) != base})
    if not dirs:
        return []
    d = dirs[pick % len(dirs)]
    # mount at the first component below the source directory or at the file's own directory
    if pick % 2:
        d = base + "/" + d[len(base) + 1:].split("/")[0]
    plan = {"seed": seed, "perm": True, "faults": [], "mount": d}
    cfgname = wm.get("cfg_name", "Breadlog.yaml")
    knobs = {"cwd": "proj", "config_arg": "rel", "threads": 2, "config_name": cfgname, "dt_unknown": bool(wm.get("dt_unknown"))}
    scenario = {"wm": world.wm_to_json(wm), "seed": seed, "base": base, "mount_pick": pick}
    viols = []
    run = scen.exec_run(wm, True, plan, knobs, ctx)
    res = run["res"]
    if res.mode != "exited":
        return []
    ctx.probes["mount_point_in_tree"] += 1
    dg = hashlib.sha256((res.trace_digest() + core.digest_world(run["after"])).encode()).hexdigest()
    rd = opened_for_read(res)
    if rd != scope:
        viols.append({"signature": "read-set-differs|mount-point", "what": "%s is a mount point; check skipped although in scope: %s; "
                      "opened although out of scope: %s" % (d, sorted(scope - rd)[:4], sorted(rd - scope)[:4]),
                      "scenario": scenario, "digest": dg})
    run = scen.exec_run(wm, False, plan, knobs, ctx)
    res = run["res"]
    if res.mode == "exited":
        lockpath = "proj/" + (cfgname.rsplit("/", 1)[0] + "/" if "/" in cfgname else "") + "Breadlog.lock"
        rd = opened_for_read(res)
        if rd != scope:
            viols.append({"signature": "read-set-differs|mount-point|edit", "what": "%s is a mount point; edit skipped although in scope: "
                          "%s; opened although out of scope: %s" % (d, sorted(scope - rd)[:4], sorted(rd - scope)[:4]),
                          "scenario": scenario, "digest": dg})
        bad = [(p, how) for p, how in core.diff_worlds(run["before"], run["after"], ignore=("tmp",))
               if p not in scope and p != lockpath and not p.startswith(lockpath)]
        if bad:
            viols.append({"signature": "out-of-scope-path-changed|mount-point", "what": "%s is a mount point; afterwards %s" % (d, bad[:4]),
                          "scenario": scenario, "digest": dg})
    return viols


def evaluate_linked_config_file(wm, seed, base, ctx):
    """--check with -c naming a symbolic link (outside/cfg_link.yaml -> ../proj/Breadlog.yaml): paths resolve against the
    directory the link is in, so the files read are those below outside/<source_dir>."""
    if "outside/cfg_link.yaml" not in wm["extra"]:
        return []
    base2 = "outside/" + base[len("proj/"):]
    scope2 = model_scope(wm, base2)
    plan = {"seed": seed, "perm": True, "faults": []}
    knobs = {"cwd": "outside", "config_arg": "rel", "threads": 2, "config_override": "cfg_link.yaml",
             "dt_unknown": bool(wm.get("dt_unknown"))}
    run = scen.exec_run(wm, True, plan, knobs, ctx)
    res = run["res"]
    if res.mode != "exited":
        return []
    ctx.probes["config_file_is_symlink"] += 1
    rd = opened_for_read(res)
    viols = []
    scenario = {"wm": world.wm_to_json(wm), "seed": seed, "base": base, "linked_config_file": True}
    dg = hashlib.sha256((res.trace_digest() + core.digest_world(run["after"])).encode()).hexdigest()
    if rd != scope2:
        viols.append({"signature": "read-set-differs|config-file-symlink", "what": "-c cfg_link.yaml (in outside/, -> ../proj/Breadlog.yaml): "
                      "read %s, expected the files below %s: %s" % (sorted(rd)[:4], base2, sorted(scope2)[:4]),
                      "scenario": scenario, "digest": dg})
    if core.diff_worlds(run["before"], run["after"]):
        viols.append({"signature": "check-modified-tree|config-file-symlink", "what": str(core.diff_worlds(run["before"], run["after"])[:3]),
                      "scenario": scenario, "digest": dg})
    return viols


def evaluate_interrupted(wm, seed, base, nth, signo, ctx):
    """An edit run stopped by a signal right after its n-th rename: wherever the lock is written on that path, it is next to
    the configuration file - and nothing else appears anywhere."""
    scope = model_scope(wm, base)
    if len(scope) < 2 or not world.cfg_uses_lock(wm["cfg"]):
        return []
    plan = {"seed": seed, "perm": True, "faults": [{"from": 1, "kinds": ["RENAME"], "pre": "tmp/", "nth": nth, "act": "sig_after", "signo": signo}]}
    cfgname = wm.get("cfg_name", "Breadlog.yaml")
    knobs = {"cwd": "outside", "config_arg": "abs", "threads": 2, "config_name": cfgname, "dt_unknown": bool(wm.get("dt_unknown"))}
    run = scen.exec_run(wm, False, plan, knobs, ctx)
    res = run["res"]
    if res.mode != "exited" or not res.signals:
        return []
    ctx.probes["interrupted_edit"] += 1
    lockpath = "proj/" + (cfgname.rsplit("/", 1)[0] + "/" if "/" in cfgname else "") + "Breadlog.lock"
    bad = [(p, how) for p, how in core.diff_worlds(run["before"], run["after"], ignore=("tmp",))
           if p not in scope and p != lockpath]
    if bad:
        dg = hashlib.sha256((res.trace_digest() + core.digest_world(run["after"])).encode()).hexdigest()
        sym = "lock-in-wrong-place|interrupted" if any(p.rsplit("/", 1)[-1].startswith("Breadlog.lock") for p, _h in bad) else \
            "out-of-scope-path-changed|interrupted"
        return [{"signature": sym, "what": "edit stopped by signal %d after rename %d; afterwards %s" % (signo, nth, bad[:4]),
                 "scenario": {"wm": world.wm_to_json(wm), "seed": seed, "base": base, "interrupt": [nth, signo]}, "digest": dg}]
    return []


def evaluate_exdev(wm, seed, base, ctx):
    """TMPDIR on another filesystem: every rename out of it fails with EXDEV.  Whatever the tool does about that (fail,
    or fall back to some other way of putting the content in place), out-of-scope paths stay untouched."""
    scope = model_scope(wm, base)
    plan = {"seed": seed, "perm": True, "faults": [{"from": 1, "kinds": ["RENAME"], "pre": "tmp/", "act": "fail", "errno": "EXDEV"}]}
    cfgname = wm.get("cfg_name", "Breadlog.yaml")
    run = scen.exec_run(wm, False, plan, {"cwd": "proj", "config_arg": "rel", "threads": 2, "config_name": cfgname, "dt_unknown": bool(wm.get("dt_unknown"))}, ctx)
    res = run["res"]
    if res.mode != "exited" or not res.fired_counts():
        return []
    ctx.probes["exdev_run"] += 1
    lockpath = "proj/" + (cfgname.rsplit("/", 1)[0] + "/" if "/" in cfgname else "") + "Breadlog.lock"
    bad = [(p, how) for p, how in core.diff_worlds(run["before"], run["after"], ignore=("tmp",))
           if p not in scope and p != lockpath and not p.startswith(lockpath)]
    if bad:
        dg = hashlib.sha256((res.trace_digest() + core.digest_world(run["after"])).encode()).hexdigest()
        return [{"signature": "out-of-scope-path-changed|exdev", "what": "every rename out of TMPDIR failed with EXDEV; afterwards %s"
                 % bad[:4], "scenario": {"wm": world.wm_to_json(wm), "seed": seed, "base": base, "exdev": True}, "digest": dg}]
    return []


def run_case(rng, idx, tier, ctx):
    wm, seed, tags, base = gen(rng)
    cw = [("outside", "rel"), ("/", "abs"), ("root", "rel"), ("outside", "abs")]
    rng.shuffle(cw)
    cwds = tuple(cw[:1 if tier == "quick" else 2])
    viols, scope = evaluate(wm, seed, base, ctx, cwds)
    if not viols and scope:
        viols += evaluate_unreadable_dir(wm, seed, base, rng.randrange(2, 7), ctx)
        viols += evaluate_exdev(wm, seed, base, ctx)
        viols += evaluate_linked_config_file(wm, seed, base, ctx)
        if rng.random() < 0.3:
            viols += evaluate_interrupted(wm, seed, base, rng.randrange(1, 3), rng.choice([2, 15]), ctx)
        if rng.random() < 0.35:
            viols += evaluate_mount(wm, seed, base, rng.randrange(1000), ctx)
    for t in tags:
        ctx.probes[t] += 1
    for c, _a in cwds:
        ctx.probes["cwd_outside" if c == "outside" else "cwd_root_abs"] += 1
    if not scope:
        ctx.probes["empty_scope"] += 1
    decoys = [p for p, e in wm["extra"].items() if e["t"] == "f" and p not in scope]
    if scope and decoys:
        ctx.nontrivial.add(str(idx))
    if not ctx.samples:
        ctx.samples.append({"cfg": wm["cfg"], "entries": sorted((p, e["t"]) for p, e in wm["extra"].items())[:40],
                            "in_scope": sorted(scope), "cwds": cwds})
    # remember the cwds so that a replay repeats them
    for v in viols:
        v["scenario"]["cwds"] = [list(c) for c in cwds]
    return viols


def replay(scenario, ctx):
    wm = world.wm_from_json(scenario["wm"])
    if scenario.get("interrupt"):
        return evaluate_interrupted(wm, scenario["seed"], scenario["base"], scenario["interrupt"][0], scenario["interrupt"][1], ctx)
    if scenario.get("linked_config_file"):
        return evaluate_linked_config_file(wm, scenario["seed"], scenario["base"], ctx)
    if "mount_pick" in scenario:
        return evaluate_mount(wm, scenario["seed"], scenario["base"], scenario["mount_pick"], ctx)
    if scenario.get("exdev"):
        return evaluate_exdev(wm, scenario["seed"], scenario["base"], ctx)
    if "opendir_nth" in scenario:
        return evaluate_unreadable_dir(wm, scenario["seed"], scenario["base"], scenario["opendir_nth"], ctx)
    cwds = tuple(tuple(c) for c in scenario.get("cwds", [["outside", "rel"], ["/", "abs"]]))
    vs, _ = evaluate(wm, scenario["seed"], scenario["base"], ctx, cwds)
    for v in vs:
        v["scenario"]["cwds"] = [list(c) for c in cwds]
    return vs


def shrink_candidates(scenario):
    extra = scenario["wm"]["extra"]
    for p in sorted(extra):
        if p.endswith("/main.rs"):
            continue
        s2 = dict(scenario)
        wm2 = dict(scenario["wm"])
        wm2["extra"] = {k: v for k, v in extra.items() if k != p}
        s2["wm"] = wm2
        yield s2
