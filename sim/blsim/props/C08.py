"""C08 - an edit run that could not update a file does not report success."""
import hashlib

from .. import core, scen, world
from . import common

ID = "C08"
LEVEL = "fault_enumeration"
TECHNIQUE = ("deterministic simulation: seeded single/multiple/persistent I/O-fault injection on scratch-file create, write and "
             "rename of the real binary's edit run; outcome oracle (exit status, printed count, follow-up --check, leftovers) "
             "against a fault-free twin")
LEVEL_TEXT = ("For sampled projects, every create/write/rename operation on a scratch file (thorough: all of them with every legal "
              "errno - a sample of them in worlds of several hundred files -, plus persistent and multi-fault plans; quick: a biased sample) is made to fail or tear. The oracle is outcome "
              "based: a file the twin updates that is not completely updated forces a non-zero exit; exit 0 implies exact count, a "
              "passing --check and no scratch file left. Sampled worlds, enumerated fault sites.")
LEVEL_NOTE = ("Trusted: seam completeness for the dynamically linked binary; the twin defines which files need an update; the "
              "documented 'Num. inserted reference(s): N' line is the reported count. Faults on source reads, stat, lock and unlink are "
              "deliberately outside this property's fault space.")
RULE = ("case = one generated project; twin run records operations; plans = fail/torn on each scratch OPEN_W / WRITE / RENAME "
        "(single), pairs of them, and persistent class faults (every rename out of TMPDIR fails EXDEV; every create in TMPDIR "
        "fails; disk full from operation k). Non-trivial = the planned fault fired; distinct = (world, plan).")
PROBES = ["unseen_ops_fail", "tmpdir_other_fs", "non_utf8_tmpdir", "real_missing_tmpdir", "exdev_rename", "no_scratch", "multi_fault", "disk_full_from", "error_surfaced_before_rename", "post_rename_write_failed"]
PROBES_ZERO_EXPECTED = {"post_rename_write_failed": "since fix 1d3b04e (flush before the rename) the repaired tree issues no write after a "
                        "rename; the probe counts again as soon as a change reintroduces one"}
ASSUMPTIONS = ["an injected failure is final for that call (no hidden retry by the seam)",
               "the follow-up --check runs fault-free on the tree the faulted run left"]
DEADLINE = {"quick": 200, "thorough": 3000}

SITE_PHASES = ("scratch-open", "scratch-write", "rename", "after-rename")


def n_cases(tier):
    return 260 if tier == "quick" else 1500


def gen(rng):
    sizes = [["tiny", "tiny", "k8"], ["tiny", "tiny", "k8"], ["tiny", "k8", "k64"], ["tiny", "k8", "k64"], ["k8", "k64"],
             ["k8", "k64", "k256"]][rng.randrange(6)]
    wm = world.gen_world_model(rng, nfiles=rng.randrange(1, 5), sizes=sizes, p_have=0.3, max_stmts=4, min_missing=1,
                               many_files=rng.choice([255, 256, 256, 257, 512]) if rng.random() < 0.04 else None,
                               many_exact=rng.random() < 0.7)
    knobs = {"threads": rng.randrange(1, 5), "config_arg": rng.choice(["rel", "abs"])}
    knobs = scen.env_knobs(rng, knobs, unusable_tmp=True)
    if len(wm["files"]) > 100:
        knobs.pop("jitter_us", None)      # (a pause before each of 5000 operations, times 15 runs, is a minute and a half)
    base = {"seed": rng.getrandbits(48) | 1, "perm": True, "faults": []}
    return wm, knobs, base


def plans_for(rng, ops, phm, tier, base):
    thorough = tier == "thorough"
    sites = [o for o in ops if phm.get(o.k) in SITE_PHASES and o.kind in ("OPEN_W", "WRITE", "RENAME")]
    single = []
    for o in sites:
        errs = scen.errnos_for(o)
        if not thorough:
            errs = [errs[rng.randrange(len(errs))]]
        for e in errs:
            single.append({"k": o.k, "act": "fail", "errno": e})
        if o.kind == "WRITE" and o.req > 1:
            single.append({"k": o.k, "act": "torn", "errno": rng.choice(["EIO", "ENOSPC"]), "frac": rng.choice([0.1, 0.5, 0.9])})
    plans = []
    huge = len(ops) > 2500       # a world of several hundred files: thousands of sites, each costing a run over all of them
    if huge:
        # (there the persistent plans below are what matters: every file, or exactly the n-th, fails)
        chosen = common.weighted_sample(rng, single, [1] * len(single), 40 if thorough else 3)
    elif thorough and len(single) > 300:
        chosen = common.weighted_sample(rng, single, [1] * len(single), 300)
    elif thorough or len(single) <= 14:
        chosen = single
    else:
        chosen = common.weighted_sample(rng, single, [1] * len(single), 14)
    for f in chosen:
        plans.append(("single", [f]))
    # multi-fault: class-addressed (n-th scratch create / write / rename), so that a later fault still lands on an
    # operation of this property's fault space after an earlier one has changed the operation sequence
    counts = {"OPEN_W": 0, "WRITE": 0, "RENAME": 0}
    for o in sites:
        counts[o.kind] += 1
    nmulti = (6 if (not thorough or huge) else 40) if not (huge and not thorough) else 2
    for _ in range(nmulti):
        fs = []
        used = set()
        for _j in range(rng.choice([2, 2, 3])):
            kind = rng.choice([k for k in counts if counts[k] > 0])
            nth = rng.randrange(1, counts[kind] + 1)
            if (kind, nth) in used:
                continue
            used.add((kind, nth))
            errs = ["EXDEV", "EIO", "EACCES", "ENOSPC"] if kind == "RENAME" else (["EIO", "ENOSPC", "EDQUOT"] if kind == "WRITE" else ["EACCES", "ENOSPC", "EMFILE"])
            fs.append({"from": 1, "kinds": [kind], "pre": "tmp/", "nth": nth, "act": "fail", "errno": rng.choice(errs)})
        if len(fs) >= 2:
            plans.append(("multi", fs))
    # persistent / class-addressed
    plans.append(("exdev", [{"from": 1, "kinds": ["RENAME"], "pre": "tmp/", "act": "fail",
                             "errno": rng.choice(["EXDEV", "EXDEV", "EINTR", "EIO"])}]))
    plans.append(("no_scratch", [{"from": 1, "kinds": ["OPEN_W"], "pre": "tmp/", "act": "fail",
                                  "errno": rng.choice(["EACCES", "ENOSPC", "EROFS"])}]))
    wr = [o.k for o in ops if phm.get(o.k) in ("scratch-write", "after-rename") and o.kind == "WRITE"]
    if wr:
        for _ in range(2 if not thorough else 6):
            plans.append(("disk_full", [{"from": rng.choice(wr), "kinds": ["WRITE", "OPEN_W"], "pre": "tmp/", "act": "fail",
                                         "errno": rng.choice(["ENOSPC", "ENOSPC", "EINVAL", "EFBIG", "EOPNOTSUPP", "ENOSYS", "EIO"])}]))
        # the n-th scratch rename only
        nren = sum(1 for o in ops if o.kind == "RENAME")
        plans.append(("nth_rename", [{"from": 1, "kinds": ["RENAME"], "pre": "tmp/", "nth": rng.randrange(1, nren + 1),
                                      "act": "fail", "errno": rng.choice(["EXDEV", "EACCES", "EIO"])}]))
    # TMPDIR on another file system and, on top of that, the source files themselves cannot be written: whatever an
    # implementation falls back to when the rename is refused, its failure has to surface too
    srcw = {"from": 1, "kinds": rng.choice([["WRITE"], ["WRITE"], ["WRITE", "OPEN_W"]]), "pre": "proj/src", "act": "fail",
            "errno": rng.choice(["ENOSPC", "EIO", "EDQUOT"])}
    plans.append(("exdev_srcwrite", [{"from": 1, "kinds": ["RENAME"], "pre": "tmp/", "act": "fail", "errno": "EXDEV"}, srcw]))
    if any(o.kind == "RENAME" and o.cls() == "lock" for o in ops):
        # the lock's sibling file is written but may not be moved into place (immutable or foreign-owned lock): the run fails,
        # and the sibling is a temporary file like any other
        plans.append(("lock_rename", [{"from": 1, "kinds": ["RENAME"], "pre": "proj/Breadlog.lock", "act": "fail",
                                       "errno": rng.choice(["EPERM", "EACCES", "EBUSY"])}]))
    uf = scen.unseen_ops_fault(rng, ops)
    if uf:
        plans.append(("unseen_ops", [uf]))
    out = []
    for name, fs in plans:
        out.append((name, {"seed": base["seed"], "perm": base["perm"], "faults": fs}))
    # the same through the simulated mount point (st_dev differs as well)
    out.append(("other_fs", {"seed": base["seed"], "perm": base["perm"], "faults": [dict(srcw)] if rng.random() < 0.5 else [],
                             "mount": "@TMPDIR@"}))
    return out


def evaluate(wm, knobs, plan, ctx, twin=None, label=None):
    if twin is None:
        twin = scen.exec_run(wm, False, scen.base_plan(plan), knobs, ctx)
    run = scen.exec_run(wm, False, plan, knobs, ctx, keep_root=True)
    root = run["root"]
    try:
        res = run["res"]
        if res.mode == "timeout":
            raise core.HarnessError("run timed out in C08")
        K = len(twin["res"].ops)
        phm = scen.phases(twin["res"].ops)
        f0 = plan["faults"][0] if plan["faults"] else {"kinds": ["none"], "act": "none"}
        if label:
            phase = label
        elif f0.get("k"):
            phase = scen.phase_of(phm, f0["k"], K)
        else:
            phase = "class:%s" % "+".join(f0.get("kinds", []))
        if plan.get("mount"):
            phase = "other-fs" + ("+srcwrite" if plan["faults"] else "")
        elif len(plan["faults"]) > 1:
            phase = "multi:" + "+".join(sorted({k for f in plan["faults"] for k in f.get("kinds", ["k"])}))
        fired = res.fired_counts()
        states = scen.classify_files(wm, run["before"], run["after"], twin["after"])
        twin_states = scen.classify_files(wm, twin["before"], twin["after"], twin["after"])
        U = [p for p, s in twin_states.items() if s == "updated"]
        for s in states.values():
            ctx.states[s] += 1
        digest = hashlib.sha256((res.trace_digest() + core.digest_world(run["after"])).encode()).hexdigest()
        scenario = {"wm": world.wm_to_json(wm), "knobs": knobs, "plan": plan, "label": label}
        viols = []
        if res.mode != "exited":
            # not this property's business (no kills or signals are injected here)
            viols.append({"signature": "abnormal-termination|%s|ioerr|%s" % (res.ending(), phase),
                          "what": "edit run under I/O faults ended by %s" % res.ending(), "scenario": scenario, "digest": digest})
            return viols, fired
        not_updated = [p for p in U if states.get(p) != "updated"]
        if res.status != 0:
            ctx.probes["error_surfaced_before_rename"] += 1
        # (1)
        if not_updated and res.status == 0:
            viols.append({"signature": "exit0-with-unupdated-file|exited|ioerr|%s" % phase,
                          "what": "exit 0 although %s was not brought to its updated content (state %s) after %s"
                                  % (not_updated[0], states[not_updated[0]], plan["faults"]),
                          "scenario": scenario, "digest": digest})
        # (2)
        if res.status == 0:
            rep = core.parse_report(res.stdout + "\n" + res.stderr)
            ntok = scen.count_tokens(run["before"], run["after"], sorted(wm["files"]))
            if rep["inserted"] is not None and rep["inserted"] != ntok:
                viols.append({"signature": "count-mismatch|exited|ioerr|%s" % phase,
                              "what": "exit 0 and 'Num. inserted reference(s): %d' but %d tokens are in the tree"
                                      % (rep["inserted"], ntok), "scenario": scenario, "digest": digest})
            chk = core.run_breadlog(root, check=True, plan=scen.base_plan(plan), knobs=knobs)
            ctx.count_run(chk)
            if not (chk.mode == "exited" and chk.status == 0) and not not_updated:
                viols.append({"signature": "check-fails-after-exit0|exited|ioerr|%s" % phase,
                              "what": "edit exited 0 but a following --check ends with %s" % chk.ending(),
                              "scenario": scenario, "digest": digest})
        # (3) leftovers
        left = [p for p, how in core.diff_worlds(run["before"], run["after"]) if how == "added" and p != "proj/Breadlog.lock"
                and (p.startswith("tmp/") or p.startswith("proj/"))]
        if left:
            viols.append({"signature": "scratch-left-behind|%s|ioerr|%s" % (res.ending(), phase),
                          "what": "run exited by itself (status %d) leaving %s" % (res.status, [core.norm_path(x) for x in left[:3]]),
                          "scenario": scenario, "digest": digest})
        return viols, fired
    finally:
        core.rm_root(root)


def run_case(rng, idx, tier, ctx):
    wm, knobs, base = gen(rng)
    twin = scen.exec_run(wm, False, base, knobs, ctx)
    tres = twin["res"]
    if tres.mode == "exited" and tres.status != 0 and "\udcff" in knobs.get("tmpdir", ""):
        # TMPDIR exists and is writable but its name is not valid UTF-8: Breadlog may refuse (non-zero exit, nothing
        # updated) - but then nothing may be left behind either.  Reference for "would be updated": the same world with an
        # ordinary TMPDIR.
        k_ok = {k: v for k, v in knobs.items() if k not in ("tmpdir", "tmpdir_make")}
        ref = scen.exec_run(wm, False, base, k_ok, ctx)
        vs, _f = evaluate(wm, knobs, base, ctx, ref, label="non-utf8-tmpdir")
        ctx.probes["non_utf8_tmpdir"] += 1
        ctx.nontrivial.add("%d.nonutf8" % idx)
        return vs
    if tres.mode != "exited" or tres.status != 0:
        raise core.HarnessError("fault-free twin failed: %s" % tres.ending())
    ops = tres.ops
    phm = scen.phases(ops)
    common.twin_probes(ctx, ops, phm)
    plans = plans_for(rng, ops, phm, tier, base)
    if not ctx.samples:
        ctx.samples.append({"files": {p: len(world.segs_bytes(s)) for p, s in wm["files"].items()},
                            "twin_ops": [o.short() for o in ops][:50], "plans": [p for _n, p in plans[:4]]})
    viols = []
    if rng.random() < 0.5:
        # the real thing instead of an injected fault: TMPDIR points to a directory that does not exist
        k2 = dict(knobs)
        k2["tmpdir"] = "no_such_tmpdir"
        vs, _f = evaluate(wm, k2, base, ctx, twin, label="missing-tmpdir")
        ctx.probes["real_missing_tmpdir"] += 1
        ctx.nontrivial.add("%d.realtmp" % idx)
        viols += vs
    for n, (name, plan) in enumerate(plans):
        if plan.get("mount") == "@TMPDIR@":
            td = knobs.get("tmpdir", "tmp").rstrip("/")
            if "\udcff" in td or knobs.get("tmpdir_rel"):
                continue
            plan["mount"] = td
        vs, fired = evaluate(wm, knobs, plan, ctx, twin)
        if fired:
            ctx.nontrivial.add("%d.%d" % (idx, n))
        f0 = plan["faults"][0] if plan["faults"] else {"act": "none"}
        if name == "unseen_ops":
            ctx.probes["unseen_ops_fail"] += 1
        if name == "other_fs":
            ctx.probes["tmpdir_other_fs"] += 1
        if name == "exdev" or f0.get("errno") == "EXDEV":
            ctx.probes["exdev_rename"] += bool(fired)
        if name == "no_scratch":
            ctx.probes["no_scratch"] += bool(fired)
        if name == "multi":
            ctx.probes["multi_fault"] += bool(fired)
        if name == "disk_full":
            ctx.probes["disk_full_from"] += bool(fired)
        if f0.get("k") and phm.get(f0["k"]) == "after-rename" and fired:
            ctx.probes["post_rename_write_failed"] += 1
        for f in plan["faults"]:
            if f.get("k"):
                op = ops[f["k"] - 1]
                ctx.sites.add("%s/%s/%s/%s" % (op.kind, op.cls(), phm.get(op.k), f["act"]))
            else:
                ctx.sites.add("class:%s/%s" % ("+".join(f["kinds"]), f["act"]))
        viols += vs
    return viols


def replay(scenario, ctx):
    wm = world.wm_from_json(scenario["wm"])
    vs, _ = evaluate(wm, scenario["knobs"], scenario["plan"], ctx, label=scenario.get("label"))
    return vs


def shrink_candidates(scenario):
    if len(scenario["plan"]["faults"]) > 1:
        # try dropping faults first
        for i in range(len(scenario["plan"]["faults"])):
            s2 = dict(scenario)
            p2 = dict(scenario["plan"])
            p2["faults"] = [f for j, f in enumerate(scenario["plan"]["faults"]) if j != i]
            s2["plan"] = p2
            yield s2
        return
    for s in common.shrink_single(scenario, check=False):
        yield s
