"""C02 - an ID once assigned is never assigned again (lock-file invariant over histories)."""
import copy
import hashlib
import os
import shutil

from .. import core, scen, world
from . import common

ID = "C02"
LEVEL = "fault_enumeration"
TECHNIQUE = ("deterministic simulation of histories (developer edits interleaved with check/edit runs of the real binary on one "
             "persistent tree), edit runs ended by seeded I/O fault / stop signal / kill at operation boundaries; ghost map "
             "ID->statement and lock-dominance invariant checked after every step")
LEVEL_TEXT = ("Histories of up to 7 steps on generated projects with the lock in use: each edit run ends cleanly, with an injected "
              "I/O failure, with SIGINT/SIGTERM, or by a kill, at a site chosen against a fault-free twin of that very step "
              "(thorough: every operation boundary of one run of the history x every kind), followed by 'delete the top statement, "
              "add one, run again'. After every step no ID is seen on a different statement than before, and after every edit run "
              "the lock dominates every ID the tool has written. Sampled histories, enumerated abnormal endings.")
LEVEL_NOTE = ("Trusted: planted statements are identified by unique marker words; IDs 'written' are those visible on disk after a "
              "step; the developer never edits the lock or IDs. Torn files (C07's business) contribute no statement IDs.")
RULE = ("case = one generated project + history (dev edits: delete top-ID statement, delete/add/move statement, add/delete file; "
        "runs: check, edit clean, edit with fault). quick: one seeded history per case with 1-2 abnormal edit runs; thorough: "
        "additionally a sweep of every (k, action) of one edit run of the history, each followed by the adversarial suffix. "
        "An evaluation is one simulated process; non-trivial = history in which an abnormal ending actually fired; distinct = "
        "(case, step, k, action).")
PROBES = ["stdout_closed_in_history", "two_signals_in_history", "top_of_id_range", "highest_id_deleted_then_run", "abnormal_then_clean_run", "kill_in_history", "signal_in_history", "ioerr_in_history",
          "lock_write_failed", "fresh_project_no_lock", "moved_statement", "check_run_in_history"]
ASSUMPTIONS = ["lock file in use (use_cache true or omitted) and never removed by the developer",
               "initial lock absent or ahead of every planted ID"]
DEADLINE = {"quick": 220, "thorough": 3300}

U32 = 0xFFFFFFFF

ABNORMAL = ["fail", "torn", "kill_before", "kill_after", "kill_mid", "sig_before", "sig_after"]


def n_cases(tier):
    return 2400 if tier == "quick" else 6000


# ---------------------------------------------------------------------------------------------

def gen_world(rng):
    wm = world.gen_world_model(rng, use_cache=rng.choice([True, None]), nfiles=rng.randrange(1, 4),
                               sizes=["tiny", "tiny", "tiny", "k8"], p_have=0.45, max_stmts=3, min_missing=1,
                               lock=rng.choice(["absent", "ahead", "ahead"]),
                               many_files=rng.choice([40, 40, 130, 260]) if rng.random() < 0.015 else None)
    if rng.random() < 0.02:
        # the lock holds v and the first run inserts so many IDs that the new value starts with v's digits (3 -> 33):
        # comparing old and new lock by anything but the whole number must not matter
        v = rng.choice([1, 2, 3, 4, 7, 12, 30])
        wm = world.gen_world_model(rng, use_cache=rng.choice([True, None]), nfiles=1, sizes=["tiny"], p_have=0.0, max_stmts=0,
                                   min_missing=0, lock="absent", many=9 * v + rng.randrange(0, 10), links_p=0, hardlinks_p=0)
        wm["lock"] = core.lock_text(v)
        return wm, {"threads": rng.randrange(1, 5), "config_arg": rng.choice(["rel", "abs"])}
    if rng.random() < 0.08:
        # the top of the ID range: the lock is within reach of 2^32-1
        wm["lock"] = core.lock_text(U32 - rng.randrange(0, 4))
    knobs = {"threads": rng.randrange(1, 5), "config_arg": rng.choice(["rel", "abs"])}
    if len(wm["files"]) > 30 and rng.random() < 0.7:
        knobs["nofile"] = 16      # see scen.env_knobs
    if rng.random() < 0.08:
        knobs["jitter_us"] = rng.choice([300, 2000, 5000])      # see scen.env_knobs
    return wm, knobs


def gen_dev(rng):
    k = rng.choice(["del_top", "del_top", "add_stmt", "add_stmt", "del_stmt", "add_file", "del_file", "move_stmt", "touch_cfg"])
    e = {"kind": k, "pick": rng.randrange(1000), "pick2": rng.randrange(1000)}
    if k in ("add_stmt", "add_file"):
        e["shape"] = rng.choice(["bare", "qual", "fmt", "kv", "multi"])
        e["macro"] = rng.choice(["info", "warn", "error"])
    return e


def gen_steps(rng):
    """Abstract history: run steps carry 'ending': clean | abnormal (site chosen later against the twin)."""
    steps = []
    n_abn = 0
    if rng.random() < 0.12:
        # the lock is in place, the top statement goes, a new one comes - and the next run cannot stat/open/read the lock
        return [{"op": "run", "check": False, "plan": None},
                {"op": "dev", "edit": {"kind": "del_top", "pick": 0}},
                {"op": "dev", "edit": {"kind": "add_stmt", "pick": rng.randrange(1000), "shape": "bare", "macro": "info"}},
                {"op": "run", "check": False, "plan": "auto-lockread"},
                {"op": "run", "check": False, "plan": None}]
    for _ in range(rng.randrange(1, 4)):
        for _d in range(rng.randrange(0, 3)):
            steps.append({"op": "dev", "edit": gen_dev(rng)})
        if rng.random() < 0.12:
            steps.append({"op": "run", "check": True, "plan": None})
        abn = rng.random() < 0.6
        n_abn += abn
        steps.append({"op": "run", "check": False, "plan": "auto" if abn else None})
        if abn:
            # the stale lock gets its chance to do damage
            steps.append({"op": "dev", "edit": {"kind": "del_top", "pick": 0}})
            steps.append({"op": "dev", "edit": {"kind": "add_stmt", "pick": rng.randrange(1000), "shape": "bare", "macro": "info"}})
            steps.append({"op": "run", "check": False, "plan": None})
    if rng.random() < 0.15:
        # the same project invoked in different ways from run to run (from its directory with a bare or ./ name, from
        # elsewhere with a relative or an absolute path): the lock belongs to the project, not to a spelling of its path
        ways = [{"cwd": "proj", "config_arg": "rel"}, {"cwd": "proj", "config_arg": "dotrel"}, {"cwd": "outside", "config_arg": "rel"},
                {"cwd": "/", "config_arg": "abs"}, {"cwd": "proj", "config_arg": "abs"}, {"cwd": "root", "config_arg": "rel"}]
        for st in steps:
            if st["op"] == "run":
                st["invoke"] = rng.choice(ways)
        steps.append({"op": "dev", "edit": {"kind": "del_top", "pick": 0}})
        steps.append({"op": "dev", "edit": {"kind": "add_stmt", "pick": rng.randrange(1000), "shape": "bare", "macro": "info"}})
        steps.append({"op": "run", "check": False, "plan": None, "invoke": rng.choice(ways)})
    return steps


SUFFIX = [{"op": "dev", "edit": {"kind": "del_top", "pick": 0}},
          {"op": "dev", "edit": {"kind": "add_stmt", "pick": 0, "shape": "bare", "macro": "info"}},
          {"op": "run", "check": False, "plan": None}]


def choose_fault(rng, ops, phm, near_top=False):
    """One abnormal ending for an edit run, placed against the twin's operation list."""
    r = rng.random()
    if near_top and 0.4 <= r < 0.47:
        # Not at the top of the ID range: there the insert pass logs an error line ("range exhausted") in the middle of its
        # work, and dying on *that* line with stdout closed is one more way into the publish window of known finding F4.
        r = 0.9
    if r < 0.12:
        # persistent: disk full for everything writable from op k on
        wr = [o.k for o in ops if o.kind in ("WRITE", "OPEN_W")]
        if wr:
            return [{"from": rng.choice(wr), "kinds": ["WRITE", "OPEN_W"], "act": "fail", "errno": "ENOSPC"}], "class:disk-full"
    if 0.4 <= r < 0.47:
        # the reader of the output goes away (breadlog | head): from the n-th line on every write to stdout fails and the
        # process dies on its next log line - one more way of "being killed"
        return [], "stdout-closed:%d" % rng.randrange(1, 14)
    if 0.22 <= r < 0.4:
        nren = max(1, sum(1 for o in ops if o.kind == "RENAME" and o.cls() == "scratch"))
        kind = rng.choice(["RENAME", "RENAME", "WRITE", "OPEN_W"])
        return [{"from": 1, "kinds": [kind], "pre": "tmp/", "nth": rng.randrange(1, nren + 1), "act": "fail",
                 "errno": rng.choice(["EXDEV", "EACCES", "EIO", "ENOSPC"])}], "class:%s" % kind
    if r < 0.22:
        # a stop request followed by a second one later in the same run
        ks = sorted(rng.sample(range(1, len(ops) + 1), 2)) if len(ops) >= 2 else [1, 1]
        s1 = {"k": ks[0], "act": rng.choice(["sig_before", "sig_after"]), "signo": rng.choice([2, 15])}
        s2 = {"k": ks[1], "act": "sig_after", "signo": rng.choice([2, 15])}
        if ks[0] != ks[1]:
            return [s1, s2], phm.get(ks[0], "other")
    cands = common.candidates(rng, ops, phm, ABNORMAL, False, signos=(2, 15))
    w = dict(common.HOT)
    w.update({"lock-write": 10, "read-after-mutation": 5, "startup": 1.5})
    ph, f = common.weighted_sample(rng, cands, [w.get(p, 1) for p, _ in cands], 1)[0]
    return [f], ph


def actual_site(res, fcls, planned):
    """Where the abnormal ending really struck, from the run's own trace: the phase of the first operation at which a
    planned fault fired; a kill anywhere between the first rename over a source file and the lock update is the
    'publish-window' (IDs are on disk, the lock does not know yet)."""
    phm = scen.phases(res.ops)
    first = None
    for o in res.ops:
        if o.fired != "-":
            first = o
            break
    if first is None:
        return planned
    ph = phm.get(first.k, planned)
    if fcls == "ioerr" and any(o.fired != "-" and o.cls() == "lock" and o.kind in ("OPEN_W", "WRITE", "RENAME") for o in res.ops):
        return "lock-write"
    if fcls == "kill":
        renamed = any(o.kind == "RENAME" and o.ret == 0 and o.cls() == "scratch" and o.k <= first.k and
                      not (o.k == first.k and "kill_before" in first.fired) for o in res.ops)
        if renamed:
            return "publish-window"
    return ph


def base_plan(seed):
    return {"seed": seed, "perm": True, "faults": []}


# ---------------------------------------------------------------------------------------------

def execute(wm0, knobs, steps, seed, ctx, rng=None):
    """Run a history on one persistent tree. Steps with plan 'auto' get an explicit plan (needs rng).
    Returns (violations, explicit_steps, info)."""
    wm = copy.deepcopy(wm0)
    root = core.new_root("h")
    viols = []
    explicit = []
    owner = {}
    tool_max = None
    last_abn = "none"
    lock_broken_by = None
    fired_any = False
    digest = hashlib.sha256()
    try:
        core.materialise(world.wm_world(wm), root)
        # Planted IDs are protected from the moment a lock file exists (a fresh project's tool cannot know about a
        # statement the developer removed before the first lock was ever written); tool-written IDs always are.
        lock_seen = wm.get("lock") is not None
        tool_ids = set()
        ambiguous = set()
        if lock_seen:
            for mk, i in world.wm_ids(wm).items():
                owner[i] = mk
        for si, st in enumerate(steps):
            st = copy.deepcopy(st)
            if st["op"] == "dev":
                desc = world.dev_apply(wm, st["edit"], root)
                st["desc"] = desc
                explicit.append(st)
                if desc and st["edit"]["kind"] == "move_stmt":
                    ctx.probes["moved_statement"] += 1
                continue
            check = st.get("check", False)
            plan = st.get("plan")
            knobs_run = dict(knobs, **st["invoke"]) if st.get("invoke") else knobs
            run_seed = st.get("seed") or ((seed + si * 7919) | 1)
            st["seed"] = run_seed
            if plan == "auto-lockread":
                # fail the n-th stat / open / read of the lock file (class addressed)
                kind = rng.choice(["STAT", "OPEN_R", "READ"])
                plan = {"seed": run_seed, "perm": True,
                        "faults": [{"from": 1, "kinds": [kind], "pre": "proj/Breadlog.lock", "nth": 1, "act": "fail",
                                    "errno": rng.choice(["EIO", "EACCES"]) if kind != "READ" else "EIO"}]}
                st["plan"] = plan
                st["site"] = "startup"
            if plan == "auto":
                twin_root = root + ".twin"
                shutil.copytree(root, twin_root, symlinks=True)
                try:
                    tres = core.run_breadlog(twin_root, check=check, plan=base_plan(run_seed), knobs=knobs_run)
                    ctx.count_run(tres)
                finally:
                    core.rm_root(twin_root)
                phm = scen.phases(tres.ops)
                if not tres.ops:
                    plan = None
                else:
                    lk_now = core.read_lock(wm["lock"]) if wm.get("lock") else None
                    faults, ph = choose_fault(rng, tres.ops, phm, near_top=bool(lk_now is not None and lk_now >= U32 - 4096))
                    plan = {"seed": run_seed, "perm": True, "faults": faults}
                    if ph.startswith("stdout-closed:"):
                        plan["stdout_fail"] = int(ph.split(":")[1])
                        ph = "stdout"
                    st["site"] = ph
                st["plan"] = plan
            full_plan = plan or base_plan(run_seed)
            res = core.run_breadlog(root, check=check, plan=full_plan, knobs=knobs_run)
            ctx.count_run(res)
            digest.update(res.trace_digest().encode())
            explicit.append(st)
            if res.mode == "timeout":
                raise core.HarnessError("run timed out in C02 history")
            disk = core.read_world(root)
            info = world.sync_model(wm, disk)
            for p in info["torn"]:
                # leave torn files to C07: they contribute no statement IDs from here on
                try:
                    txt = disk[p]["data"].decode("utf-8")
                    wm["files"][p] = [["pad", txt]]
                except UnicodeDecodeError:
                    del wm["files"][p]
            for p in info["missing"]:
                wm["files"].pop(p, None)
            abnormal = bool(plan and (plan.get("faults") or plan.get("stdout_fail")))
            fired = bool(res.fired_counts() or res.signals or res.stdout_failed)
            f0 = plan["faults"][0] if (abnormal and plan.get("faults")) else None
            fcls = scen.fault_class(f0) if f0 else ("stdout-closed" if abnormal else "none")
            if abnormal and len(plan["faults"]) > 1:
                fcls = "+".join(scen.fault_class(f) for f in plan["faults"])
                ctx.probes["two_signals_in_history"] += 1
            site = st.get("site", "none")
            if abnormal and fired:
                site = actual_site(res, fcls, site)
            if abnormal and fired:
                fired_any = True
                if lock_broken_by is None:
                    last_abn = "%s/%s/%s" % (res.ending(), fcls, site)
                if fcls == "kill":
                    ctx.probes["kill_in_history"] += 1
                elif fcls.startswith("SIG"):
                    ctx.probes["signal_in_history"] += 1
                else:
                    ctx.probes["ioerr_in_history"] += 1
                if site == "lock-write":
                    ctx.probes["lock_write_failed"] += 1
                ctx.sites.add("%s/%s" % (site, f0["act"] if f0 else "stdout"))
                if not f0:
                    ctx.probes["stdout_closed_in_history"] += 1
            elif not check and last_abn != "none":
                ctx.probes["abnormal_then_clean_run"] += 1
            if check:
                ctx.probes["check_run_in_history"] += 1
            if not check and si >= 2 and steps[si - 2]["op"] == "dev" and steps[si - 2]["edit"]["kind"] == "del_top":
                ctx.probes["highest_id_deleted_then_run"] += 1
            inserted = [n for (_p, _mk, n, _t) in info["inserted"]]
            tool_ids.update(inserted)
            if inserted:
                tool_max = max(inserted + ([tool_max] if tool_max is not None else []))
            scenario = {"wm": world.wm_to_json(wm0), "knobs": knobs, "steps": explicit + [], "seed": seed}
            dg_now = hashlib.sha256((digest.hexdigest() + core.digest_world(disk)).encode()).hexdigest()
            # (a) behavioural form.  An ID becomes protected (bound to the one statement carrying it) when the tool wrote it, or
            # when it is visible while a lock file already existed before this step.  An ID that is *first* observed on two
            # statements at once (a fresh project whose first scan missed a file because of a read error) is a uniqueness
            # matter of that single run, outside what the lock invariant can speak about: it is set aside, not bound.
            holders = {}
            for mk, i in sorted(world.wm_ids(wm).items()):
                holders.setdefault(i, []).append(mk)
            for i in sorted(holders):
                hs = holders[i]
                if i in ambiguous:
                    continue
                if i not in owner:
                    if lock_seen or i in tool_ids:
                        if len(hs) == 1:
                            owner[i] = hs[0]
                        else:
                            ambiguous.add(i)
                    continue
                for mk in hs:
                    if mk != owner[i]:
                        viols.append({"signature": "id-reused|after:%s" % last_abn,
                                      "what": "step %d: ID %d, once written for statement %s, is now on statement %s (blamed run: %s)"
                                              % (si, i, owner[i], mk, last_abn),
                                      "scenario": _cut(scenario), "digest": dg_now, "step": si})
                        owner[i] = mk
                        break
            lk0 = disk.get("proj/Breadlog.lock")
            if lk0 is not None and lk0["t"] == "f" and core.read_lock(lk0["data"]) is not None:
                lock_seen = True
            # also tokens that landed outside tracked statements count as written
            # (b) inductive form, after every edit run however it ended
            if not check and tool_max is not None:
                lk = disk.get("proj/Breadlog.lock")
                val = core.read_lock(lk["data"]) if lk and lk["t"] == "f" else None
                # At the top of the range the counter can pass 2^32-1 (IDs consumed by a file whose update then failed
                # count too): no u32 is greater, and "0 = none left" is the value from which no ID is handed out again.
                # A tool that treated 0 as a start value would be caught by the behavioural form (a) and by C01.
                exhausted_ok = (val == 0 and tool_max >= U32 - 64)
                if (val is None or val <= tool_max) and not exhausted_ok and lock_broken_by is None:
                    # reported once per history, at the run after which the lock first fell behind; later
                    # id-reused reports are blamed on that run
                    lock_broken_by = "%s/%s/%s" % (res.ending(), fcls if (abnormal and fired) else "none",
                                                   site if (abnormal and fired) else "none")
                    last_abn = lock_broken_by
                    sig = "lock-behind|%s|%s|%s" % (res.ending(), fcls if (abnormal and fired) else "none",
                                                    site if (abnormal and fired) else "none")
                    lockdesc = "absent" if lk is None else ("unparsable (%d bytes)" % len(lk["data"]) if val is None else str(val))
                    viols.append({"signature": sig,
                                  "what": "step %d: after an edit run ending %s the tool has written IDs up to %d but the lock is %s"
                                          % (si, res.ending(), tool_max, lockdesc),
                                  "scenario": _cut(scenario), "digest": dg_now, "step": si})
        dg = hashlib.sha256((digest.hexdigest() + core.digest_world(core.read_world(root))).encode()).hexdigest()
    finally:
        core.rm_root(root)
    # one report per signature, the earliest
    seen = set()
    out = []
    for v in viols:
        if v["signature"] in seen:
            continue
        seen.add(v["signature"])
        out.append(v)
    return out, explicit, {"fired": fired_any, "digest": dg}


def _cut(scenario):
    s = dict(scenario)
    s["steps"] = copy.deepcopy(scenario["steps"])
    return s


def run_case(rng, idx, tier, ctx):
    wm, knobs = gen_world(rng)
    seed = rng.getrandbits(40)
    if wm["lock"] is None:
        ctx.probes["fresh_project_no_lock"] += 1
    elif (core.read_lock(wm["lock"]) or 0) >= U32 - 8:
        ctx.probes["top_of_id_range"] += 1
    steps = gen_steps(rng)
    viols, explicit, info = execute(wm, knobs, steps, seed, ctx, rng)
    if info["fired"]:
        ctx.nontrivial.add("%d.h" % idx)
    if not ctx.samples:
        ctx.samples.append({"cfg": wm["cfg"], "lock": core.read_lock(wm["lock"]) if wm["lock"] else None,
                            "files": sorted(wm["files"]),
                            "history": [(s.get("desc") or s["edit"]["kind"]) if s["op"] == "dev" else
                                        ("check" if s.get("check") else "edit") + ((" " + str(s["plan"]["faults"])) if s.get("plan") else "")
                                        for s in explicit]})
    if tier == "thorough" and idx % 6 == 0:
        viols += sweep(rng, idx, wm, knobs, seed, ctx)
    return viols


def sweep(rng, idx, wm, knobs, seed, ctx):
    """Every (k, action) of one edit run at the end of a short clean prefix, each followed by the adversarial suffix."""
    prefix = []
    for _ in range(rng.randrange(0, 3)):
        prefix.append({"op": "dev", "edit": gen_dev(rng)})
    if rng.random() < 0.5:
        prefix = [{"op": "run", "check": False, "plan": None}, {"op": "dev", "edit": {"kind": "add_stmt", "pick": rng.randrange(99),
                                                                                      "shape": "bare", "macro": "warn"}}] + prefix
    # twin of the sweep step: execute prefix + clean run once to get its operation list
    si = len(prefix)
    probe_steps = prefix + [{"op": "run", "check": False, "plan": None}]
    root_ops = _ops_of_last_run(wm, knobs, probe_steps, seed, ctx)
    if not root_ops:
        return []
    phm = scen.phases(root_ops)
    cands = common.candidates(rng, root_ops, phm, ABNORMAL, True, signos=(2, 15))
    if len(cands) > 260:
        cands = common.weighted_sample(rng, cands, [common.HOT.get(p, 1) for p, _ in cands], 260)
    viols = []
    for ph, f in cands:
        run_seed = (seed + si * 7919) | 1
        steps = prefix + [{"op": "run", "check": False, "seed": run_seed,
                           "plan": {"seed": run_seed, "perm": True, "faults": [f]}, "site": ph}] + SUFFIX
        vs, _e, info = execute(wm, knobs, steps, seed, ctx)
        if info["fired"]:
            ctx.nontrivial.add("%d.s.%d.%s.%s" % (idx, f["k"], f["act"], f.get("errno", f.get("signo", ""))))
        viols += vs
    return viols


def _ops_of_last_run(wm0, knobs, steps, seed, ctx):
    wm = copy.deepcopy(wm0)
    root = core.new_root("p")
    try:
        core.materialise(world.wm_world(wm), root)
        res = None
        for si, st in enumerate(steps):
            if st["op"] == "dev":
                world.dev_apply(wm, st["edit"], root)
                continue
            if si == len(steps) - 1:
                # do not disturb: run the probe on a copy
                pass
            res = core.run_breadlog(root, check=st.get("check", False), plan=base_plan((seed + si * 7919) | 1), knobs=knobs)
            ctx.count_run(res)
            world.sync_model(wm, core.read_world(root))
        return res.ops if res else []
    finally:
        core.rm_root(root)


def replay(scenario, ctx):
    wm = world.wm_from_json(scenario["wm"])
    vs, _e, _i = execute(wm, scenario["knobs"], scenario["steps"], scenario["seed"], ctx)
    return vs


def shrink_candidates(scenario):
    steps = scenario["steps"]
    # drop one step at a time (later steps first keeps the failing prefix intact longer)
    for i in range(len(steps) - 1, -1, -1):
        if steps[i]["op"] == "run" and steps[i].get("plan") and steps[i]["plan"].get("faults"):
            continue
        s2 = dict(scenario)
        s2["steps"] = steps[:i] + steps[i + 1:]
        yield s2
    wm = world.wm_from_json(scenario["wm"])
    for w2 in common.world_reductions(wm):
        s2 = dict(scenario)
        s2["wm"] = world.wm_to_json(w2)
        yield s2
