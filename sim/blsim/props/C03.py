"""C03 - edit mode only inserts reference tokens; existing references never change."""
import hashlib

from .. import core, corpus, scen, world

ID = "C03"
LEVEL = "exploration"
TECHNIQUE = ("deterministic simulation of edit runs of the real binary under benign schedules only (seeded short reads/writes, EINTR, "
             "thread count, enumeration order) on generated trees in four size classes and on real / corrupted corpus files; "
             "insert-only byte relation on every file of the world")
LEVEL_TEXT = ("Every file of the world is compared byte for byte before/after an edit run; the run must be explained by inserting "
              "reference tokens only, statements that already carry a reference receive nothing, and paths outside the source set are "
              "untouched. Runs are additionally perturbed with legal-but-unusual call results (short counts, EINTR) that exercise the "
              "write path across cache drains. Inputs are sampled (generated + real code + mutated real code): exploration.")
LEVEL_NOTE = ("Trusted: the insert-only alignment (bounded backtracking) accepts every legal result; short counts and EINTR are legal "
              "results of read/write/open that std retries.")
RULE = ("case = (a) generated tree, sizes tiny/8K/64K/256K, CRLF and multi-byte variants, or (b) 1-4 corpus files, some with "
        "UTF-8-preserving mutations; one edit run with 0-6 benign faults (short on n-th READ/WRITE, EINTR on n-th READ/WRITE/OPEN). "
        "Non-trivial = at least one token inserted; distinct = case index.")
PROBES = ["file_17mb", "hard_fault_run", "non_utf8_source", "id_range_runs_out", "bom_file", "short_write_retried", "short_read_retried", "eintr_retried", "multi_drain", "crlf_file", "corpus_world", "mutated_corpus",
          "large_file_256k", "existing_refs_present"]
ASSUMPTIONS = ["no fault other than short counts / EINTR is injected here (strict equality otherwise)"]
DEADLINE = {"quick": 200, "thorough": 3000}


def n_cases(tier):
    return 2000 if tier == "quick" else 40000


def benign_plan(rng, nmax=6):
    faults = []
    for _ in range(rng.randrange(0, nmax + 1)):
        r = rng.random()
        if r < 0.35:
            faults.append({"from": 1, "kinds": ["WRITE"], "pre": "tmp/", "nth": rng.randrange(1, 12), "act": "short",
                           "frac": rng.choice([0.01, 0.3, 0.5, 0.99])})
        elif r < 0.6:
            faults.append({"from": 1, "kinds": ["READ"], "pre": "proj/", "nth": rng.randrange(1, 12), "act": "short",
                           "frac": rng.choice([0.01, 0.3, 0.5, 0.99])})
        elif r < 0.8:
            faults.append({"from": 1, "kinds": [rng.choice(["READ", "OPEN_R"])], "pre": "proj/", "nth": rng.randrange(1, 10),
                           "act": "eintr"})
        else:
            faults.append({"from": 1, "kinds": [rng.choice(["WRITE", "OPEN_W"])], "nth": rng.randrange(1, 10), "act": "eintr"})
    return faults


def gen(rng):
    tags = set()
    if rng.random() < 0.55:
        sizes = rng.choice([["tiny"], ["k8", "tiny"], ["k64", "k8"], ["k256", "k64", "tiny"]])
        wm = world.gen_world_model(rng, use_cache=rng.choice([False, None, True]), nfiles=rng.randrange(1, 4), sizes=sizes,
                                   p_have=0.4, max_stmts=5, min_missing=1, crlf_p=0.25,
                                   unicode_p=rng.choice([0.0, 0.0, 0.3, 0.9]), big_p=0.01)
        if "k256" in sizes:
            tags.add("large_file_256k")
        if rng.random() < 0.06 and world.cfg_uses_lock(wm["cfg"]):
            # the ID range runs out in the middle of the run: whatever is (not) written must still be original + tokens
            wm["lock"] = core.lock_text(0xFFFFFFFF - rng.randrange(0, 3))
            tags.add("id_range_runs_out")
        if any("\r\n" in s[-1] for segs in wm["files"].values() for s in segs):
            tags.add("crlf_file")
    else:
        tags.add("corpus_world")
        structured = rng.random() < 0.4
        extra = {}
        for i, (rel, data, _hl) in enumerate(corpus.pick(rng, rng.randrange(1, 5), want_log=0.85)):
            if rng.random() < 0.4:
                data, _ops = corpus.mutate(rng, data, utf8_only=True)
                tags.add("mutated_corpus")
            extra["proj/src/c%d_%s" % (i, rel.replace("/", "_"))] = {"t": "f", "mode": 0o644, "data": data}
        wm = {"cfg": {"source_dir": "./src", "structured": structured, "use_cache": rng.choice([False, None])},
              "files": {}, "extra": extra, "lock": None}
    # unusual file heads: byte-order mark, shebang-like first line, leading blank lines, no trailing newline
    for p in sorted(wm["files"]):
        r = rng.random()
        first = wm["files"][p][0]
        if r < 0.15:
            first[-1] = "\ufeff" + first[-1]
            tags.add("bom_file")
        elif r < 0.22:
            first[-1] = "#!/usr/bin/env run-cargo-script\n" + first[-1]
        elif r < 0.3:
            first[-1] = "\n\n\r\n" + first[-1]
        if rng.random() < 0.1:
            last = wm["files"][p][-1]
            last[-1] = last[-1].rstrip("\n") + " // no newline at end"
    for p in sorted(wm["extra"]):
        if p.startswith("proj/src/c") and wm["extra"][p]["t"] == "f" and rng.random() < 0.12:
            wm["extra"][p]["data"] = b"\xef\xbb\xbf" + wm["extra"][p]["data"]
            tags.add("bom_file")
    if rng.random() < 0.15:
        # an in-scope file in a legacy encoding (not valid UTF-8): whatever the tool makes of it, the bytes it cannot
        # decode stay as they are
        bad = rng.choice([b"\xe9", b"\xff", b"\xc3\x28", b"\xed\xa0\x80", b"\xf0\x9f"])
        wm["extra"]["proj/src/legacy_enc.rs"] = {"t": "f", "mode": 0o644, "data":
            b"// caf" + bad + b" legacy encoding\nfn l() {\n    info!(\"latin " + bad + b" message\");\n"
            b"    warn!(\"[ref: 7] has one " + bad + b"\");\n}\n"}
        tags.add("non_utf8_source")
    # bystanders that must not change
    wm["extra"]["proj/notes.txt"] = {"t": "f", "mode": 0o644, "data": b"info!(\"bystander\");\n"}
    wm["extra"]["proj/src/data.rsx"] = {"t": "f", "mode": 0o600, "data": b"warn!(\"other ext\");\n"}
    knobs = {"threads": rng.randrange(1, 5), "config_arg": rng.choice(["rel", "abs"])}
    knobs = scen.env_knobs(rng, knobs)
    if rng.random() < 0.002:
        # one really big generated file (17 MB: beyond any "reasonable" read limit somebody might think of)
        wm = world.gen_world_model(rng, use_cache=rng.choice([False, None]), nfiles=2, sizes=["tiny"], p_have=0.4, max_stmts=3, min_missing=1,
                                   custom_macros_p=0.0, id_hi=60)
        first = sorted(wm["files"])[0]
        g = world.Gen(rng)
        g.n = wm.get("nmark", 0) + 100
        wm["files"][first] = g.source_file(bool(wm["cfg"].get("structured")), 3, "m17", [None, 77, None])
        wm["nmark"] = g.n
        knobs["timeout"] = 240
        knobs.pop("jitter_us", None)
        tags = {"file_17mb"}
    plan = {"seed": rng.getrandbits(48) | 1, "perm": True, "faults": benign_plan(rng)}
    return wm, knobs, plan, tags


def source_paths(wm):
    return sorted(set(wm["files"]) | {p for p, e in wm["extra"].items() if p.startswith("proj/src/") and p.endswith(".rs")
                                      and e["t"] == "f"})


def evaluate(wm, knobs, plan, ctx):
    run = scen.exec_run(wm, False, plan, knobs, ctx)
    res = run["res"]
    if res.mode == "timeout":
        raise core.HarnessError("timeout in C03")
    digest = hashlib.sha256((res.trace_digest() + core.digest_world(run["after"])).encode()).hexdigest()
    scenario = {"wm": world.wm_to_json(wm), "knobs": knobs, "plan": plan}
    fired = res.fired_counts()
    sched = ("hard-fault" if plan.get("hard") else "benign-faults") if fired else "fault-free"
    viols = []

    def V(sym, what):
        viols.append({"signature": "%s|%s|%s" % (sym, res.ending(), sched), "what": what, "scenario": scenario, "digest": digest})

    srcs = source_paths(wm)
    ntok = 0
    for p in srcs:
        b = run["before"][p]
        a = run["after"].get(p)
        if a is None or a["t"] != "f":
            V("source-file-vanished", "%s is gone after the edit run" % p)
            continue
        ins = core.explain(b["data"], a["data"])
        if ins is None:
            V("not-insert-only", "%s (%d B -> %d B) is not its original content plus reference tokens" % (p, len(b["data"]), len(a["data"])))
            continue
        ntok += len(ins)
        if p in wm["files"]:
            r = world.sync_file(wm["files"][p], a["data"])
            if r is not None:
                for mk, n, tok in r[1]:
                    if mk is None:
                        continue
                    orig = [s for s in world.file_stmts(wm["files"][p]) if s[1] == mk][0]
                    if world.stmt_id(orig[2]) is not None:
                        V("token-added-to-referenced-statement", "statement %s already carried ID %d and received %r"
                          % (mk, world.stmt_id(orig[2]), tok))
    for p, how in core.diff_worlds(run["before"], run["after"], ignore=("tmp",)):
        if p in srcs or p == "proj/Breadlog.lock":
            continue
        V("bystander-changed", "%s %s" % (p, how))
    if res.mode != "exited":
        V("abnormal-termination", "edit run ended by %s" % res.ending())

    return viols, {"ntok": ntok, "fired": fired, "res": res}


def run_case(rng, idx, tier, ctx):
    wm, knobs, plan, tags = gen(rng)
    viols, info = evaluate(wm, knobs, plan, ctx)
    if rng.random() < 0.15:
        # the same tree with one hard failure while the new content is created (disk full, file size limit, I/O error at the
        # n-th scratch write / create / rename): whatever the run then reports, every file is still original + tokens
        kind = rng.choice(["WRITE", "WRITE", "WRITE", "OPEN_W", "RENAME"])
        f = {"from": 1, "kinds": [kind], "pre": "tmp/", "nth": rng.randrange(1, 7), "act": "fail",
             "errno": rng.choice(["ENOSPC", "EFBIG", "EIO", "EDQUOT"] if kind == "WRITE" else ["EACCES", "ENOSPC", "EXDEV"][:3 if kind == "RENAME" else 2])}
        if kind == "WRITE" and rng.random() < 0.4:
            f["act"], f["frac"] = "torn", rng.choice([0.1, 0.5, 0.9])
        plan2 = {"seed": plan["seed"], "perm": True, "faults": [f], "hard": True}
        if rng.random() < 0.3 and not knobs.get("tmpdir_rel") and "\udcff" not in knobs.get("tmpdir", ""):
            # TMPDIR on another file system (every rename out of it is refused) and, on top of that, copying or writing
            # below the source tree fails part of the way: whatever the tool falls back to must not eat the original
            plan2 = {"seed": plan["seed"], "perm": True, "hard": True, "mount": knobs.get("tmpdir", "tmp").rstrip("/"),
                     "faults": [{"from": 1, "kinds": ["COPY", "WRITE"], "pre": "proj/src", "nth": rng.randrange(1, 3),
                                 "act": rng.choice(["fail", "torn"]), "errno": rng.choice(["ENOSPC", "EIO"]), "frac": 0.5}]}
        vs, info2 = evaluate(wm, knobs, plan2, ctx)
        if info2["fired"]:
            ctx.probes["hard_fault_run"] += 1
        viols += vs
    for t in tags:
        ctx.probes[t] += 1
    res = info["res"]
    for o in res.ops:
        if "short" in o.fired:
            ctx.probes["short_write_retried" if o.kind == "WRITE" else "short_read_retried"] += 1
        if "eintr" in o.fired:
            ctx.probes["eintr_retried"] += 1
    w = {}
    for o in res.ops:
        if o.kind == "WRITE" and o.cls() == "scratch":
            w[o.path] = w.get(o.path, 0) + 1
    if any(v >= 3 for v in w.values()):
        ctx.probes["multi_drain"] += 1
    if world.wm_ids(wm):
        ctx.probes["existing_refs_present"] += 1
    if info["ntok"]:
        ctx.nontrivial.add(str(idx))
    if not ctx.samples:
        ctx.samples.append({"files": {p: len(e["data"]) for p, e in world.wm_world(wm).items() if e["t"] == "f"},
                            "faults": plan["faults"], "tokens_inserted": info["ntok"], "fired": info["fired"], "tags": sorted(tags)})
    return viols


def replay(scenario, ctx):
    wm = world.wm_from_json(scenario["wm"])
    vs, _ = evaluate(wm, scenario["knobs"], scenario["plan"], ctx)
    return vs


def shrink_candidates(scenario):
    from . import common
    fs = scenario["plan"]["faults"]
    for i in range(len(fs)):
        s2 = dict(scenario)
        s2["plan"] = dict(scenario["plan"], faults=fs[:i] + fs[i + 1:])
        yield s2
    wm = world.wm_from_json(scenario["wm"])
    for w2 in common.world_reductions(wm):
        s2 = dict(scenario)
        s2["wm"] = world.wm_to_json(w2)
        yield s2
    extra = scenario["wm"]["extra"]
    names = [p for p in sorted(extra) if p.startswith("proj/src/c")]
    if len(names) > 1:
        for p in names:
            s2 = dict(scenario)
            wm2 = dict(scenario["wm"])
            wm2["extra"] = {k: v for k, v in extra.items() if k != p}
            s2["wm"] = wm2
            yield s2
