"""C16 - configuration switches and defaults mean what the guide says."""
import copy
import hashlib
import itertools

from .. import core, scen, world

ID = "C16"
LEVEL = "exploration"
TECHNIQUE = ("deterministic simulation of one- and two-run histories of the real binary over the complete product of configuration "
             "points (use_cache x lock state x structured x extensions x mode) plus error configurations; lock access observed at "
             "the libc seam, defaults observed through the IDs and token styles the runs choose")
LEVEL_TEXT = ("The 216-point product {use_cache true/omitted/false} x {lock absent/valid-ahead/corrupt/empty} x {structured "
              "true/omitted/false} x {extensions omitted/[rs]/[rsx]} x {check, edit} is covered completely in each tier (tiers differ "
              "in worlds per point); with the cache off no open/rename/unlink of the lock may appear at the seam; defaults, the "
              "valid-lock start value, the corrupt-lock fallback and the second-run continuation are read off the chosen IDs; error "
              "configurations must exit non-zero without any mutating call. Cache-off points are additionally ended by a signal, "
              "I/O error or kill at sampled operations (the lock must still not be touched); cache-on edit points get a run in which "
              "one file's update fails (the lock must still be written above every inserted ID). Worlds per point are sampled: "
              "exploration.")
LEVEL_NOTE = "Trusted: seam completeness for lock access; planted IDs are >= 50 so that a restart at 1 is distinguishable."
RULE = ("case index -> configuration point (index mod 216, complete product) or error configuration; world seeded per case; 1 run, "
        "+1 run after 'delete top statement, add one' for lock-using edit points. Non-trivial = every case (each is a distinct "
        "(point, world)); distinct = case index.")
PROBES = ["config_is_symlink", "lock_with_long_head", "stale_lock_tmp", "cache_on_partial_failure", "cache_off_abnormal_ending", "cache_off", "cache_omitted", "lock_valid", "lock_corrupt", "lock_empty", "lock_absent", "structured_omitted",
          "extensions_omitted", "error_config", "second_run"]
ASSUMPTIONS = ["fault-free runs"]
DEADLINE = {"quick": 200, "thorough": 3000}

POINTS = list(itertools.product([True, None, False], ["absent", "valid", "corrupt", "empty"], [True, None, False],
                                [None, ["rs"], ["rsx"]], [True, False]))
ERRS = ["no_cfg", "bad_yaml", "no_source_dir_key", "src_missing", "src_is_file", "no_files", "cfg_is_dir", "no_rust_stanza",
        "rust_stanza_empty", "cfg_empty", "cfg_is_list"]
NPOINT = len(POINTS) + len(ERRS) * 2
# every entry fails to parse as the lock structure (verified against the tool: invalid YAML, wrong type, duplicate or missing
# key); several still contain a line that *looks* like a valid entry
CORRUPT = [b"next_reference_id: banana\n", b"{{{{ not yaml", b"next_reference_id: -4\n", b"\xff\xfe\x00garbage",
           b"next_reference_id: 99999999999\n", b"other_key: 3\n", b"- 1\n- 2\n",
           b"<<<<<<< HEAD\nnext_reference_id: 12\n=======\nnext_reference_id: 13\n>>>>>>> other\n",
           b"garbage {{{\nnext_reference_id: 12\n", b"next_reference_id: 12\nnext_reference_id: 13\n",
           b"next_reference_id: 12 trailing words\n", b"next_reference_id: \"12\"\n", b"next_reference_id: 12.0\n",
           b"NEXT_REFERENCE_ID: 12\n", b"# next_reference_id: 12\n", b"next_reference_id:\n", b"next_reference_id: ~\n"]


def n_cases(tier):
    return NPOINT * (8 if tier == "quick" else 80)


def build_world(rng, use_cache, lockstate, structured, exts):
    g = world.Gen(rng)
    files = {}
    lo = rng.randrange(50, 400)
    ids = [lo + 3 * i for i in range(6)]
    rng.shuffle(ids)
    names = ["a.rs", "sub/c.rs", "b.rsx"]
    if rng.random() < 0.3:
        # names that end in the letters of a configured extension without having it
        names += rng.sample(["handlers", "sub/helpers", "cfg.attrs", "xrs", "list.ars", "b.rsxx", "c.rs.orig", "d.RS"], 2)
    for name in names:
        ns = rng.randrange(2, 4)
        planted = [ids.pop() if (i > 0 and ids and rng.random() < 0.6) else None for i in range(ns)]
        if name == "a.rs" and all(p is not None for p in planted):
            planted[0] = None
        files["proj/src/" + name] = g.source_file(bool(structured), ns, "tiny", planted, shapes=["bare", "fmt", "qual"])
    # make sure each file has at least one missing
    cfg = {"source_dir": "./src", "use_cache": use_cache, "structured": structured, "extensions": exts}
    world.add_extra_keys(rng, cfg, 0.3)
    wm = {"cfg": cfg, "files": files, "extra": {}, "lock": None, "nmark": g.n}
    if lockstate == "valid":
        wm["lock"] = core.lock_text(rng.randrange(5000, 9000))
        if rng.random() < 0.25:
            # a lock that grew a long comment head (licence header hook, team notes): still the same valid YAML; the key
            # line sits beyond, or right across, the sizes a reader might use as a buffer
            n = rng.choice([1003, 1010, 1100, 2040, 4090, 8185, 20000])
            head = b""
            while len(head) < n:
                head += b"# " + b"note " * min(13, max(0, (n - len(head) - 3) // 5)) + b"\n"
                if n - len(head) < 8:
                    head += b"#" * max(0, n - len(head) - 1) + b"\n"
            wm["lock"] = head[:n - 1] + b"\n" + b"next_reference_id: %d\n" % rng.randrange(5000, 9000)
            wm["long_lock"] = True
    elif lockstate == "corrupt":
        wm["lock"] = rng.choice(CORRUPT)
    elif lockstate == "empty":
        wm["lock"] = b""
    if rng.random() < 0.1:
        wm["cfg_link"] = True       # the configuration file is a symbolic link to a shared file elsewhere (world._wm_world)
    if rng.random() < 0.12:
        # what a run that died while writing the lock leaves behind, next to whatever lock state this point has
        wm["extra"]["proj/Breadlog.lock.tmp"] = {"t": "f", "mode": 0o644, "data": rng.choice(
            [b"", b"---\nnext_refer", core.lock_text(rng.randrange(1, 40)), b"\x00" * 64])}
    return wm


def scope_of(wm):
    exts = wm["cfg"].get("extensions")
    exts = ["rs"] if exts is None else exts
    return sorted(p for p in wm["files"] if p.rsplit(".", 1)[-1] in exts)


def lock_ops(res):
    return [o for o in res.ops if o.cls() == "lock" and o.kind != "STAT"]


def evaluate_point(wm0, point, seed, ctx):
    use_cache, lockstate, structured, exts, check = point
    wm = copy.deepcopy(wm0)
    tag = "cache=%s|lock=%s|%s" % ({True: "on", None: "omitted", False: "off"}[use_cache], lockstate, "check" if check else "edit")
    scenario = {"wm": world.wm_to_json(wm0), "point": list(point), "seed": seed}
    viols = []
    dg = hashlib.sha256()

    def V(sym, what):
        viols.append({"signature": "%s|%s" % (sym, tag), "what": what, "scenario": scenario, "digest": None})

    knobs = {"threads": 2}
    plan = {"seed": seed, "perm": True, "faults": []}
    root = core.new_root("c")
    try:
        core.materialise(world.wm_world(wm), root)
        before = core.read_world(root)
        res = core.run_breadlog(root, check=check, plan=plan, knobs=knobs)
        ctx.count_run(res)
        dg.update(res.trace_digest().encode())
        after = core.read_world(root)
        if res.mode != "exited":
            V("abnormal-termination", res.ending())
            return viols
        scope = scope_of(wm)
        lock_used = use_cache is not False
        planted = world.wm_ids(wm)
        in_scope_ids = [world.stmt_id(s[2]) for p in scope for s in world.file_stmts(wm["files"][p])]
        in_scope_ids = [i for i in in_scope_ids if i is not None]
        top = max(in_scope_ids) if in_scope_ids else 0
        lk_b, lk_a = before.get("proj/Breadlog.lock"), after.get("proj/Breadlog.lock")
        if not lock_used:
            lo = lock_ops(res)
            if lo:
                V("cache-off-lock-touched", "use_cache false but the run issued %s" % [o.short() for o in lo[:3]])
            if lk_b != lk_a:
                V("cache-off-lock-changed", "use_cache false but the lock file changed")
        if check:
            if core.diff_worlds(before, after):
                V("check-modified-tree", str(core.diff_worlds(before, after)[:3]))
            missing = sum(1 for p in scope for s in world.file_stmts(wm["files"][p]) if world.stmt_id(s[2]) is None)
            if (res.status != 0) != (missing > 0):
                V("check-status-wrong", "exit %d with %d missing references in scope" % (res.status, missing))
            return viols
        # edit
        info = world.sync_model(wm, after)
        if info["torn"]:
            V("not-insert-only", info["torn"][0])
            return viols
        ins = info["inserted"]
        touched = sorted({p for p, _m, _n, _t in ins})
        if touched != scope:
            V("extensions-wrong", "extensions=%s: files edited %s, expected %s" % (exts, touched, scope))
        want_struct = bool(structured)
        for p, mk, n, tok in ins:
            if tok.startswith("ref = ") != want_struct:
                V("style-wrong", "structured=%s but token %r was inserted" % (structured, tok))
                break
        nums = [n for _p, _m, n, _t in ins]
        if res.status != 0:
            V("edit-failed", "fault-free edit exited %d" % res.status)
        if nums:
            valid_lock = core.read_lock(wm0["lock"]) if (lock_used and lockstate == "valid") else None
            if valid_lock is not None:
                if min(nums) < valid_lock:
                    V("valid-lock-not-used", "lock said %d but the run inserted %s" % (valid_lock, sorted(nums)[:6]))
            else:
                if min(nums) <= top or max(nums) > 0xFFFFFFFF:
                    V("fallback-start-wrong", "lock %s/%s: largest existing ID %d but the run inserted %s"
                      % (lockstate, "unused" if not lock_used else "used", top, sorted(nums)[:6]))
            if lock_used:
                v = core.read_lock(lk_a["data"]) if lk_a is not None and lk_a["t"] == "f" else None
                if v is None or v <= max(nums):
                    V("lock-not-written", "inserted up to %d but the lock afterwards is %s" % (max(nums), v))
        # second run: delete the top statement, add one; the first new ID continues from the lock
        if lock_used and nums:
            ctx.probes["second_run"] += 1
            lockv = core.read_lock(after["proj/Breadlog.lock"]["data"]) if "proj/Breadlog.lock" in after else None
            # only in-scope files are edited by the developer here
            wm2 = wm
            scope_files = {p: wm2["files"][p] for p in scope}
            keep = wm2["files"]
            wm2["files"] = scope_files
            world.dev_apply(wm2, {"kind": "del_top", "pick": 0}, root)
            world.dev_apply(wm2, {"kind": "add_stmt", "pick": 0, "shape": "bare", "macro": "info"}, root)
            for p in keep:
                if p not in wm2["files"]:
                    wm2["files"][p] = keep[p]
            res2 = core.run_breadlog(root, check=False, plan={"seed": seed + 2, "perm": True, "faults": []}, knobs=knobs)
            ctx.count_run(res2)
            dg.update(res2.trace_digest().encode())
            after2 = core.read_world(root)
            info2 = world.sync_model(wm2, after2)
            nums2 = [n for _p, _m, n, _t in info2["inserted"]]
            if lockv is not None and nums2 and min(nums2) < lockv:
                V("second-run-ignores-lock", "lock said %d after run 1; after deleting the top statement run 2 inserted %s"
                  % (lockv, sorted(nums2)[:4]))
            if not nums2:
                V("second-run-inserted-nothing", "a statement was added but run 2 inserted nothing (exit %s)" % res2.status)
    finally:
        core.rm_root(root)
        for v in viols:
            v["digest"] = dg.hexdigest()
    return viols


def evaluate_cache_off_endings(wm0, point, seed, plans, ctx):
    """use_cache false: neither read nor created nor changed - also when the run is stopped by a signal or hits an
    I/O error.  plans = explicit fault plans (chosen against the fault-free run's operation list)."""
    use_cache, lockstate, structured, exts, check = point
    tag = "cache=off|lock=%s|%s" % (lockstate, "check" if check else "edit")
    viols = []
    for plan in plans:
        run = scen.exec_run(wm0, check, plan, {"threads": 2}, ctx)
        res = run["res"]
        f0 = plan["faults"][0]
        fc = scen.fault_class(f0)
        scenario = {"wm": world.wm_to_json(wm0), "point": list(point), "seed": seed, "ending_plan": plan}
        dg = hashlib.sha256((res.trace_digest() + core.digest_world(run["after"])).encode()).hexdigest()
        lo = lock_ops(res)
        if lo:
            viols.append({"signature": "cache-off-lock-touched|%s|%s|%s" % (tag, res.ending(), fc),
                          "what": "use_cache false, run ended %s after %s, and issued %s" % (res.ending(), f0, [o.short() for o in lo[:3]]),
                          "scenario": scenario, "digest": dg})
        if run["before"].get("proj/Breadlog.lock") != run["after"].get("proj/Breadlog.lock") or \
                any(p.startswith("proj/Breadlog.lock") for p, _h in core.diff_worlds(run["before"], run["after"])):
            viols.append({"signature": "cache-off-lock-changed|%s|%s|%s" % (tag, res.ending(), fc),
                          "what": "use_cache false, run ended %s after %s, and the lock file (or a sibling of it) changed"
                                  % (res.ending(), f0), "scenario": scenario, "digest": dg})
        if res.fired_counts() or res.signals:
            ctx.probes["cache_off_abnormal_ending"] += 1
    return viols


def evaluate_cache_on_partial_failure(rng, wm0, point, seed, ctx, n):
    """use_cache true/omitted: 'an inserting edit run writes the lock' - also a run in which one file could not be updated
    (scratch create / write / rename failure) while others were."""
    use_cache, lockstate, structured, exts, check = point
    tag = "cache=%s|lock=%s|edit" % ("on" if use_cache else "omitted", lockstate)
    viols = []
    for _ in range(n):
        kind = rng.choice(["RENAME", "WRITE", "OPEN_W"])
        f = {"from": 1, "kinds": [kind], "pre": "tmp/", "nth": rng.randrange(1, 3), "act": "fail",
             "errno": {"RENAME": "EACCES", "WRITE": "ENOSPC", "OPEN_W": "EMFILE"}[kind]}
        plan = {"seed": seed, "perm": True, "faults": [f]}
        run = scen.exec_run(wm0, False, plan, {"threads": 2}, ctx)
        res = run["res"]
        if not res.fired_counts() or res.mode != "exited":
            continue
        ctx.probes["cache_on_partial_failure"] += 1
        nums = []
        for p in wm0["files"]:
            b, a = run["before"].get(p), run["after"].get(p)
            if b and a and a["t"] == "f":
                ins = core.explain(b["data"], a["data"])
                if ins:
                    nums += [x[2] for x in ins]
        if not nums:
            continue
        lk = run["after"].get("proj/Breadlog.lock")
        v = core.read_lock(lk["data"]) if lk is not None and lk["t"] == "f" else None
        if v is None or v <= max(nums):
            scenario = {"wm": world.wm_to_json(wm0), "point": list(point), "seed": seed, "partial_plan": plan}
            dg = hashlib.sha256((res.trace_digest() + core.digest_world(run["after"])).encode()).hexdigest()
            viols.append({"signature": "lock-not-written-after-partial-failure|%s|%s" % (tag, kind),
                          "what": "one file failed (%s), others received IDs up to %d, but the lock afterwards is %s (exit %s)"
                                  % (f, max(nums), v, res.status), "scenario": scenario, "digest": dg})
    return viols


def cache_off_plans(rng, wm0, check, seed, ctx, n):
    tw = scen.exec_run(wm0, check, {"seed": seed, "perm": True, "faults": []}, {"threads": 2}, ctx)
    ops = tw["res"].ops
    phm = scen.phases(ops)
    from . import common
    cands = common.candidates(rng, ops, phm, ["sig_before", "sig_after", "fail", "kill_after"], False, signos=(2, 15))
    w = {"rename": 8, "after-rename": 6, "scratch-write": 5, "scratch-open": 4, "read-after-mutation": 5, "read": 2, "discovery": 1,
         "startup": 1}
    chosen = common.weighted_sample(rng, cands, [w.get(ph, 1) for ph, _f in cands], n)
    return [{"seed": seed, "perm": True, "faults": [f]} for _ph, f in chosen]


def build_error(rng, kind):
    wm = build_world(rng, rng.choice([True, None, False]), rng.choice(["absent", "valid"]), rng.choice([True, None, False]), None)
    knobs = {"threads": 2}
    if kind == "no_cfg":
        wm["cfg_name"] = "Other.yaml"
        knobs["config_name"] = "Breadlog.yaml"
    elif kind == "bad_yaml":
        wm["cfg_raw"] = b"---\n: this is invalid YAML\n  -"
    elif kind == "no_source_dir_key":
        wm["cfg_raw"] = b"---\nrust:\n  log_macros:\n    - module: log\n      name: info\n"
    elif kind == "src_missing":
        wm["cfg"]["source_dir"] = "./nonexistent"
    elif kind == "src_is_file":
        wm["cfg"]["source_dir"] = "./src/a.rs"
    elif kind == "no_files":
        wm["cfg"]["extensions"] = rng.choice([["zzz"], []])
    elif kind == "no_rust_stanza":
        wm["cfg_raw"] = ("---\nsource_dir: ./src\n" + rng.choice(["", "use_cache: true\n", "use_cache: false\n"])).encode()
    elif kind == "rust_stanza_empty":
        wm["cfg_raw"] = b"---\nsource_dir: ./src\nrust:\n"
    elif kind == "cfg_empty":
        wm["cfg_raw"] = rng.choice([b"", b"---\n", b"# only a comment\n"])
    elif kind == "cfg_is_list":
        wm["cfg_raw"] = b"- source_dir: ./src\n- rust: {}\n"
    elif kind == "cfg_is_dir":
        wm["cfg_name"] = "Other.yaml"
        wm["extra"]["proj/Breadlog.yaml"] = {"t": "d", "mode": 0o755}
    return wm, knobs


def evaluate_error(wm, knobs, kind, check, seed, ctx):
    run = scen.exec_run(wm, check, {"seed": seed, "perm": True, "faults": []}, knobs, ctx)
    res = run["res"]
    scenario = {"wm": world.wm_to_json(wm), "err": kind, "check": check, "seed": seed, "knobs": knobs}
    tag = "%s|%s" % (kind, "check" if check else "edit")
    dg = hashlib.sha256((res.trace_digest() + core.digest_world(run["after"])).encode()).hexdigest()
    viols = []
    if res.mode != "exited":
        viols.append({"signature": "abnormal-termination|%s" % tag, "what": res.ending(), "scenario": scenario, "digest": dg})
        return viols
    if res.status == 0:
        viols.append({"signature": "error-config-accepted|%s" % tag, "what": "exit 0 with error configuration %s" % kind,
                      "scenario": scenario, "digest": dg})
    muts = [o for o in res.ops if o.is_mutation()]
    ch = core.diff_worlds(run["before"], run["after"])
    if muts or ch:
        viols.append({"signature": "error-config-modified-tree|%s" % tag,
                      "what": "error configuration %s: mutating calls %s, changed paths %s" % (kind, [o.short() for o in muts[:3]], ch[:3]),
                      "scenario": scenario, "digest": dg})
    return viols


def run_case(rng, idx, tier, ctx):
    j = idx % NPOINT
    seed = rng.getrandbits(40) | 1
    ctx.nontrivial.add(str(idx))
    if j < len(POINTS):
        point = POINTS[j]
        use_cache, lockstate, structured, exts, check = point
        wm = build_world(rng, use_cache, lockstate, structured, exts)
        ctx.probes[{True: "cache_on", None: "cache_omitted", False: "cache_off"}[use_cache]] += 1
        ctx.probes["lock_" + lockstate] += 1
        if wm.get("cfg_link"):
            ctx.probes["config_is_symlink"] += 1
        if wm.get("long_lock"):
            ctx.probes["lock_with_long_head"] += 1
        if "proj/Breadlog.lock.tmp" in wm["extra"]:
            ctx.probes["stale_lock_tmp"] += 1
        if structured is None:
            ctx.probes["structured_omitted"] += 1
        if exts is None:
            ctx.probes["extensions_omitted"] += 1
        ctx.sites.add("point:%d" % j)
        viols = evaluate_point(wm, point, seed, ctx)
        if use_cache is False:
            plans = cache_off_plans(rng, wm, check, seed, ctx, 4 if tier == "quick" else 10)
            viols += evaluate_cache_off_endings(wm, point, seed, plans, ctx)
        elif not check:
            viols += evaluate_cache_on_partial_failure(rng, wm, point, seed, ctx, 2 if tier == "quick" else 6)
        if not ctx.samples:
            ctx.samples.append({"point": {"use_cache": use_cache, "lock": lockstate, "structured": structured, "extensions": exts,
                                          "mode": "check" if check else "edit"}, "files": sorted(wm["files"]),
                                "planted_ids": sorted(world.wm_ids(wm).values())})
        return viols
    e = j - len(POINTS)
    kind, check = ERRS[e // 2], bool(e % 2)
    ctx.probes["error_config"] += 1
    ctx.sites.add("err:%s:%s" % (kind, check))
    wm, knobs = build_error(rng, kind)
    return evaluate_error(wm, knobs, kind, check, seed, ctx)


def replay(scenario, ctx):
    wm = world.wm_from_json(scenario["wm"])
    if "err" in scenario:
        return evaluate_error(wm, scenario["knobs"], scenario["err"], scenario["check"], scenario["seed"], ctx)
    pt = scenario["point"]
    pt = tuple(tuple(x) if isinstance(x, list) and False else x for x in pt)
    if "partial_plan" in scenario:
        import random as _r
        # re-evaluate exactly that plan
        use_cache, lockstate, structured, exts, check = pt
        plan = scenario["partial_plan"]
        run = scen.exec_run(wm, False, plan, {"threads": 2}, ctx)
        res = run["res"]
        nums = []
        for p in wm["files"]:
            b, a = run["before"].get(p), run["after"].get(p)
            if b and a and a["t"] == "f":
                ins = core.explain(b["data"], a["data"])
                if ins:
                    nums += [x[2] for x in ins]
        lk = run["after"].get("proj/Breadlog.lock")
        v = core.read_lock(lk["data"]) if lk is not None and lk["t"] == "f" else None
        if nums and (v is None or v <= max(nums)):
            kind = plan["faults"][0]["kinds"][0]
            tag = "cache=%s|lock=%s|edit" % ("on" if use_cache else "omitted", lockstate)
            return [{"signature": "lock-not-written-after-partial-failure|%s|%s" % (tag, kind), "what": "replayed",
                     "scenario": scenario, "digest": hashlib.sha256((res.trace_digest() + core.digest_world(run["after"])).encode()).hexdigest()}]
        return []
    if "ending_plan" in scenario:
        return evaluate_cache_off_endings(wm, pt, scenario["seed"], [scenario["ending_plan"]], ctx)
    return evaluate_point(wm, pt, scenario["seed"], ctx)
