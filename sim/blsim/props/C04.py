"""C04 - check mode never modifies anything."""
import hashlib

from .. import core, scen, world
from . import common

ID = "C04"
LEVEL = "fault_enumeration"
TECHNIQUE = ("deterministic simulation: --check runs of the real binary under seeded I/O faults, kills and signals at "
             "operation boundaries; oracle = zero mutating libc calls at the seam plus identical whole-world snapshot")
LEVEL_TEXT = ("Over the configuration space (lock present/absent/corrupt/empty, cache on/off/omitted, structured on/off, missing "
              "references or none, error configurations) every --check run is also perturbed with each fault kind, kill and signal "
              "at every operation boundary (thorough) or a sample (quick). The seam must see no creating/truncating open, write, "
              "rename, unlink, mkdir, link, truncate, chmod or copy on any world path, and proj/, tmp/ and outside/ must be "
              "byte- and mode-identical afterwards. Sampled worlds, enumerated fault points.")
LEVEL_NOTE = ("Trusted: the seam interposes the libc entry points listed in DESIGN.md 3.2; modifications through calls it does not "
              "know are caught only by the before/after snapshot (which cannot see write-then-restore).")
RULE = ("case = generated project x configuration point; one fault-free --check run plus one run per sampled/enumerated "
        "(operation k, action) with action in {fail errno, short, eintr, kill_before, kill_after, sig_before, sig_after}. "
        "Non-trivial = run with a fired fault or a distinct configuration point; distinct = (world, k, action, errno).")
PROBES = ["git_work_tree", "non_utf8_source", "old_leftovers", "other_file_system", "odd_argv", "stdout_closed", "tmpdir_missing", "lock_corrupt", "lock_valid", "cache_off", "error_config", "no_missing_refs", "fault_fired", "killed", "signalled"]
ASSUMPTIONS = ["stat/open-for-read/readdir are not modifications"]
DEADLINE = {"quick": 200, "thorough": 3000}

KINDS = ["fail", "short", "eintr", "kill_before", "kill_after", "sig_before", "sig_after"]


def n_cases(tier):
    return 300 if tier == "quick" else 2000


def gen(rng):
    lockk = rng.choice(["absent", "valid", "corrupt", "empty", "valid"])
    wm = world.gen_world_model(rng, nfiles=rng.randrange(1, 5), sizes=["tiny", "tiny", "k8", "k64"], p_have=0.5,
                               max_stmts=3, min_missing=rng.choice([0, 0, 1, 2]), lock="absent")
    tags = ["lock_" + lockk]
    if lockk == "valid":
        wm["lock"] = core.lock_text(rng.randrange(1, 5000))
    elif lockk == "corrupt":
        wm["lock"] = rng.choice([b"next_reference_id: banana\n", b"{{{{ not yaml", b"next_reference_id: -4\n", b"\xff\xfe\x00garbage"])
    elif lockk == "empty":
        wm["lock"] = b""
    if wm["cfg"].get("use_cache") is False:
        tags.append("cache_off")
    # decoys next to the project that must stay untouched too
    wm["extra"]["proj/README.md"] = {"t": "f", "mode": 0o644, "data": b"info!(\"not source mk_readme\");\n"}
    wm["extra"]["outside/other.rs"] = {"t": "f", "mode": 0o600, "data": b"fn o() { info!(\"outside mk_out\"); }\n"}
    wm["extra"]["tmp/leftover.tmp"] = {"t": "f", "mode": 0o644, "data": b"stale scratch\n"}
    # what an earlier, crashed run may have left behind: --check must not tidy up either
    if rng.random() < 0.5:
        wm["extra"]["proj/Breadlog.lock.tmp"] = {"t": "f", "mode": 0o644, "data": core.lock_text(rng.randrange(1, 99))}
    if rng.random() < 0.5:
        wm["extra"]["tmp/breadlog-0b0c7a52-1111-4222-8333-444455556666.tmp"] = {"t": "f", "mode": 0o644, "data": b"fn half() {"}
    if rng.random() < 0.3:
        wm["extra"]["proj/src/.main.rs.swp"] = {"t": "f", "mode": 0o600, "data": b"swap"}
        wm["extra"]["proj/Breadlog.lock.bak"] = {"t": "f", "mode": 0o644, "data": core.lock_text(7)}
    if rng.random() < 0.5:
        # ... and those leftovers are old (hours, days, a year before the simulated "now"): nothing a check run may tidy up
        old = 1790000000 - rng.choice([3 * 3600, 2 * 86400, 400 * 86400])
        mt = dict(wm.get("mtimes") or {})
        for q in ("tmp/leftover.tmp", "proj/Breadlog.lock.tmp", "tmp/breadlog-0b0c7a52-1111-4222-8333-444455556666.tmp",
                  "proj/src/.main.rs.swp", "proj/Breadlog.lock.bak"):
            if q in wm["extra"]:
                mt[q] = old
        wm["mtimes"] = mt
        tags.append("old_leftovers")
    if rng.random() < 0.2:
        # an in-scope file in a legacy encoding: a check run reports it and leaves it alone
        bad = rng.choice([b"\xe9", b"\xff", b"\xc3\x28"])
        wm["extra"]["proj/src/legacy_enc.rs"] = {"t": "f", "mode": 0o644, "data": b"// caf" + bad + b" legacy\nfn l() { info!(\"[ref: 7] latin " + bad + b"\"); }\n"}
        tags.append("non_utf8_source")
    if rng.random() < 0.08:
        wm["git"] = True        # the project is a git work tree with a stale index (scen.git_work_tree)
        tags.append("git_work_tree")
    err = rng.random() < 0.15
    if err:
        tags.append("error_config")
        kind = rng.choice(["no_cfg", "bad_yaml", "no_source_dir_key", "src_missing", "src_is_file", "no_files"])
        if kind == "no_cfg":
            wm["cfg_name"] = "Other.yaml"
            wm["knob_cfg"] = "Breadlog.yaml"
        elif kind == "bad_yaml":
            wm["cfg_raw"] = b"---\n: this is invalid YAML\n  -"
        elif kind == "no_source_dir_key":
            wm["cfg_raw"] = b"---\nrust:\n  log_macros:\n    - module: log\n      name: info\n"
        elif kind == "src_missing":
            wm["cfg"]["source_dir"] = "./nonexistent"
        elif kind == "src_is_file":
            wm["cfg"]["source_dir"] = "./README.md"
        elif kind == "no_files":
            wm["cfg"]["extensions"] = ["zzz"]
    knobs = {"threads": rng.randrange(1, 5), "config_arg": rng.choice(["rel", "abs"]), "cwd": rng.choice(["proj", "proj", "outside", "/"])}
    knobs = scen.env_knobs(rng, knobs)
    if wm.get("knob_cfg"):
        knobs["config_name"] = wm.pop("knob_cfg")
    if rng.random() < 0.12:
        # spellings the argument parser may or may not accept - whichever it does, nothing may be modified
        knobs["argv_style"] = rng.choice(["check_twice", "check_eq", "config_twice", "unknown_flag"])
        tags.append("odd_argv")
    if rng.random() < 0.2:
        knobs["tmpdir"] = rng.choice(["no_such_tmp", "cache/run-1000/tmp", "outside/newtmp"])
        tags.append("tmpdir_missing")
    base = {"seed": rng.getrandbits(48) | 1, "perm": True, "faults": []}
    return wm, knobs, base, tags


def evaluate(wm, knobs, plan, ctx, phase="none"):
    run = scen.exec_run(wm, True, plan, knobs, ctx)
    res = run["res"]
    f0 = plan["faults"][0] if plan["faults"] else None
    fcls = scen.fault_class(f0) if f0 else ("stdout-closed" if plan.get("stdout_fail") else ("other-fs" if plan.get("mount") else "none"))
    digest = hashlib.sha256((res.trace_digest() + core.digest_world(run["after"])).encode()).hexdigest()
    scenario = {"wm": world.wm_to_json(wm), "knobs": knobs, "plan": plan, "phase": phase}
    viols = []
    muts = [o for o in res.ops if o.is_mutation()]
    if muts:
        o = muts[0]
        viols.append({"signature": "mutating-call|%s|%s|%s/%s" % (res.ending(), fcls, o.kind, o.cls()),
                      "what": "--check issued %s on %s (op %d, flags %x)%s" % (o.kind, core.norm_path(o.path), o.k, o.flags,
                                                                                " and %d more" % (len(muts) - 1) if len(muts) > 1 else ""),
                      "scenario": scenario, "digest": digest})
    changed = core.diff_worlds(run["before"], run["after"])
    if changed:
        viols.append({"signature": "snapshot-differs|%s|%s|%s" % (res.ending(), fcls, core.path_class(changed[0][0])),
                      "what": "after --check: %s" % [(core.norm_path(p), h) for p, h in changed[:4]],
                      "scenario": scenario, "digest": digest})
    if res.mode == "timeout":
        raise core.HarnessError("check run timed out in C04")
    return viols, res


def run_case(rng, idx, tier, ctx):
    wm, knobs, base, tags = gen(rng)
    for t in tags:
        if t in PROBES:
            ctx.probes[t] += 1
    viols, tres = evaluate(wm, knobs, base, ctx)
    ctx.nontrivial.add("%d.cfg" % idx)
    if tres.mode == "exited" and tres.status == 0:
        ctx.probes["no_missing_refs"] += 1
    ops = tres.ops
    phm = scen.phases(ops)
    plans = common.enumerate_plans(rng, ops, phm, KINDS, tier, quick_n=14, base=base, signos=(2, 15),
                                   weights={"startup": 2, "discovery": 1, "read": 2, "lock-other": 4})
    if not ctx.samples:
        ctx.samples.append({"tags": tags, "cfg": wm["cfg"], "knobs": knobs, "ops": [o.short() for o in ops][:40],
                            "first_plans": [p["faults"] for p in plans[:4]]})
    K = len(ops)
    # the reader of the output goes away (breadlog --check | head): every write to stdout/stderr fails from the n-th on
    for n in ([1, rng.randrange(2, 12)] if tier == "quick" else [1, 2, 3, 4, 5, 6, 8, 10, 15, 25]):
        plan = {"seed": base["seed"], "perm": True, "faults": [], "stdout_fail": n}
        vs, res = evaluate(wm, knobs, plan, ctx, "stdout-closed")
        if res.stdout_failed:
            ctx.probes["stdout_closed"] += 1
            ctx.nontrivial.add("%d.stdout.%d" % (idx, n))
        viols += vs
    if rng.random() < 0.35:
        # TMPDIR (or the source tree) lives on another file system than the rest: other st_dev, EXDEV across the boundary
        mnt = rng.choice([knobs.get("tmpdir", "tmp").rstrip("/"), "proj/src"])
        vs, res = evaluate(wm, knobs, {"seed": base["seed"], "perm": True, "faults": [], "mount": mnt}, ctx, "other-fs")
        ctx.probes["other_file_system"] += 1
        ctx.nontrivial.add("%d.mount.%s" % (idx, mnt))
        viols += vs
    for plan in plans:
        f0 = plan["faults"][0]
        ph = scen.phase_of(phm, f0["k"], K)
        vs, res = evaluate(wm, knobs, plan, ctx, ph)
        if res.fired_counts() or res.signals:
            ctx.probes["fault_fired"] += 1
            ctx.nontrivial.add("%d.%d.%s.%s" % (idx, f0["k"], f0["act"], f0.get("errno", f0.get("signo", ""))))
            op = ops[f0["k"] - 1]
            ctx.sites.add("%s/%s/%s/%s" % (op.kind, op.cls(), ph, f0["act"]))
        if res.seam_kill:
            ctx.probes["killed"] += 1
        if res.signals:
            ctx.probes["signalled"] += 1
        viols += vs
    return viols


def replay(scenario, ctx):
    wm = world.wm_from_json(scenario["wm"])
    vs, _ = evaluate(wm, scenario["knobs"], scenario["plan"], ctx, scenario.get("phase", "none"))
    return vs


def shrink_candidates(scenario):
    if scenario["plan"]["faults"]:
        # first try without any fault at all
        s2 = dict(scenario)
        s2["plan"] = scen.base_plan(scenario["plan"])
        yield s2
    for s in common.shrink_single(scenario, check=True):
        yield s
