"""C07 - source files are replaced atomically at every crash and fault point."""
import hashlib

from .. import core, scen, world
from . import common

ID = "C07"
LEVEL = "fault_enumeration"
TECHNIQUE = "deterministic simulation: seeded sweep of kill / I/O-fault points over the recorded libc operation sequence of the real binary, post-state oracle against a fault-free twin"
LEVEL_TEXT = ("For sampled projects every operation boundary of the edit run (thorough) or a biased sample of them (quick) is "
              "hit with a process kill (before/after/inside the call) and with each legal errno; after each run every source file "
              "must be byte-identical to its original or to the twin's complete update. Also: two-fault plans (I/O error then kill; "
              "TMPDIR on another filesystem = every rename fails with EXDEV, then a second event) and 'aftermath' histories "
              "(abnormal run, developer edits, fault-free run on the same tree and TMPDIR - what the first run left behind must not "
              "leak into the files). Sampled worlds, enumerated fault points: evidence, not proof.")
LEVEL_NOTE = ("Trusted: the LD_PRELOAD seam sees every filesystem call of the dynamically linked binary; tmpfs keeps what the "
              "kernel accepted at kill time; the twin run defines 'complete updated'. Power loss / un-synced data are not modelled.")
RULE = ("case = one generated project (1-4 source files in four size classes, 1-5 insertions per file, both styles); "
        "a fault-free twin run records the operation list 1..K; then one run per (operation k, action) with action in "
        "{kill_before, kill_after, kill_mid on writes, fail with each errno legal for the call, torn write}: quick samples "
        "sites biased to scratch writes/renames/post-rename operations, thorough sweeps every k x action. "
        "An evaluation is one faulted run; it is non-trivial when the planned fault actually fired; distinct = distinct "
        "(world, k, action, errno).")
PROBES = ["no_scratch_possible", "unseen_ops_fail", "exdev_then_second_event", "aftermath_history", "two_fault_plan", "multi_drain", "kill_with_scratch_open", "fault_after_first_rename", "exdev_rename", "kill_mid_write"]
ASSUMPTIONS = ["process death = SIGKILL at an operation boundary or inside a write; only what the kernel has survives "
               "(no power-loss model)",
               "the fault-free twin defines the complete updated content (insertion offsets; ID values free)"]
DEADLINE = {"quick": 200, "thorough": 3000}

KINDS = ["kill_before", "kill_after", "kill_mid", "fail", "torn"]


def n_cases(tier):
    return 220 if tier == "quick" else 1500


def gen(rng):
    sizes = [["tiny", "tiny", "k8"], ["tiny", "tiny", "k8"], ["tiny", "k8", "k64"], ["tiny", "k8", "k64"], ["k8", "k64"],
             ["k8", "k64", "k256"]][rng.randrange(6)]
    wm = world.gen_world_model(rng, nfiles=rng.randrange(1, 4), sizes=sizes, p_have=0.3, max_stmts=5, min_missing=1)
    if rng.random() < 0.3:
        # every source file has a "<name>.tmp" neighbour (and one more sibling) that belongs to the user
        for p in sorted(wm["files"]):
            wm["extra"].setdefault(p + ".tmp", {"t": "f", "mode": 0o644, "data": b"user notes kept next to " + p.encode() + b"\n"})
            wm["extra"].setdefault(p + rng.choice([".bak", "~", ".orig"]), {"t": "f", "mode": 0o600, "data": b"older copy\n"})
    knobs = {"threads": rng.randrange(1, 5), "config_arg": rng.choice(["rel", "abs"])}
    knobs = scen.env_knobs(rng, knobs)
    plan = {"seed": rng.getrandbits(48) | 1, "perm": True, "faults": []}
    return wm, knobs, plan


def evaluate(wm, knobs, plan, ctx, twin=None):
    """Run one faulted edit run and apply the C07 oracle. Returns list of violations."""
    if twin is None:
        twin = scen.exec_run(wm, False, scen.base_plan(plan), knobs, ctx)
    run = scen.exec_run(wm, False, plan, knobs, ctx)
    res = run["res"]
    viols = []
    if res.mode == "timeout":
        raise core.HarnessError("run timed out in C07")
    K = len(twin["res"].ops)
    phm = scen.phases(twin["res"].ops)
    f0 = plan["faults"][0] if plan["faults"] else None
    phase = scen.phase_of(phm, f0.get("k", 0), K) if (f0 and f0.get("k")) else ("class:%s" % "+".join(f0.get("kinds", [])) if f0 else "none")
    fcls = scen.fault_class(f0) if f0 else "none"
    if len(plan["faults"]) > 1:
        fcls = "+".join(scen.fault_class(f) for f in plan["faults"])
    states = scen.classify_files(wm, run["before"], run["after"], twin["after"])
    for p, s in states.items():
        ctx.states[s] += 1
    bad = [p for p, s in states.items() if s in ("other", "missing")]
    digest = hashlib.sha256((res.trace_digest() + core.digest_world(run["after"])).encode()).hexdigest()
    scenario = {"wm": world.wm_to_json(wm), "knobs": knobs, "plan": plan}
    if bad:
        p = bad[0]
        b = run["before"][p]["data"]
        a = run["after"].get(p)
        alen = len(a["data"]) if a and a["t"] == "f" else -1
        t = twin["after"][p]["data"]
        viols.append({"signature": "torn-source|%s|%s|%s" % (res.ending(), fcls, phase),
                      "what": "%s is neither original (%d B) nor complete updated (%d B): %d B on disk after %s at op %s (%s)"
                              % (p, len(b), len(t), alen, fcls, f0.get("k") if f0 else "-", phase),
                      "scenario": scenario, "digest": digest})
    # everything else in proj/ and outside/ except the lock
    changed = []
    src_ext = set(wm["cfg"].get("extensions") or ["rs"])
    for p, how in core.diff_worlds(run["before"], run["after"], ignore=("tmp",)):
        if p in wm["files"] or p == "proj/Breadlog.lock":
            continue
        if how == "added" and res.seam_kill and p.startswith("proj/"):
            ext = p.rsplit(".", 1)[-1] if "." in p.rsplit("/", 1)[-1] else ""
            if ext not in src_ext:
                continue  # a scratch file an implementation keeps next to the source cannot be cleaned up when killed
        changed.append((p, how))
    if changed:
        viols.append({"signature": "other-file-affected|%s|%s|%s" % (res.ending(), fcls, phase),
                      "what": "paths other than source files and the lock changed: %s" % changed[:4],
                      "scenario": scenario, "digest": digest})
    return viols


def run_case(rng, idx, tier, ctx):
    wm, knobs, base = gen(rng)
    twin = scen.exec_run(wm, False, base, knobs, ctx)
    tres = twin["res"]
    if tres.mode != "exited":
        raise core.HarnessError("fault-free twin did not exit: %s" % tres.ending())
    ops = tres.ops
    K = len(ops)
    phm = scen.phases(ops)
    common.twin_probes(ctx, ops, phm)
    plans = common.enumerate_plans(rng, ops, phm, KINDS, tier, quick_n=26, base=base)
    if not ctx.samples:
        ctx.samples.append({"files": {p: len(world.segs_bytes(s)) for p, s in wm["files"].items()},
                            "structured": bool(wm["cfg"].get("structured")), "twin_ops": [o.short() for o in ops][:60],
                            "plans_tried": len(plans), "first_plans": [p["faults"] for p in plans[:3]]})
    viols = []
    first_rename = min([o.k for o in ops if o.kind == "RENAME"], default=None)
    # two-fault plans: an I/O error, then a kill at a later operation of the (now different) continuation
    for _ in range(3 if tier == "quick" else 24):
        o1 = rng.choice(ops)
        acts = scen.applicable_actions(o1, ["fail", "torn"])
        if not acts:
            continue
        f1 = {"k": o1.k, "act": acts[0], "errno": rng.choice(scen.errnos_for(o1))}
        if f1["act"] == "torn":
            f1["frac"] = 0.5
        f2 = {"k": rng.randrange(o1.k + 1, K + 8), "act": rng.choice(["kill_before", "kill_after"])}
        plan2 = {"seed": base["seed"], "perm": base["perm"], "faults": [f1, f2]}
        viols += evaluate(wm, knobs, plan2, ctx, twin)
        ctx.probes["two_fault_plan"] += 1
        ctx.nontrivial.add("%d.2f.%d.%d" % (idx, f1["k"], f2["k"]))
    # TMPDIR on another filesystem (every rename out of it fails with EXDEV) plus a second event later: an
    # implementation that falls back to copying must still replace the file atomically
    exdev = {"from": 1, "kinds": ["RENAME"], "pre": "tmp/", "act": "fail", "errno": "EXDEV"}
    if first_rename:
        for _ in range(3 if tier == "quick" else 20):
            k2 = rng.randrange(first_rename, K + 25)
            f2 = rng.choice([{"k": k2, "act": "kill_before"}, {"k": k2, "act": "kill_after"},
                             {"k": k2, "act": "kill_mid", "frac": rng.choice([0.1, 0.5, 0.9])},
                             {"k": k2, "act": "fail", "errno": rng.choice(["ENOSPC", "EIO"])}])
            viols += evaluate(wm, knobs, {"seed": base["seed"], "perm": base["perm"], "faults": [exdev, f2]}, ctx, twin)
            ctx.probes["exdev_then_second_event"] += 1
            ctx.nontrivial.add("%d.xd.%d.%s" % (idx, k2, f2["act"]))
    # no scratch file can be created in TMPDIR at all (missing, read-only, full), alone and followed by a kill: whatever an
    # implementation falls back to, source files stay original-or-updated and nobody else's file is used up
    nosc = {"from": 1, "kinds": ["OPEN_W"], "pre": "tmp/", "act": "fail", "errno": rng.choice(["EACCES", "ENOSPC", "EROFS"])}
    viols += evaluate(wm, knobs, {"seed": base["seed"], "perm": base["perm"], "faults": [nosc]}, ctx, twin)
    k2 = rng.randrange(1, K + 20)
    viols += evaluate(wm, knobs, {"seed": base["seed"], "perm": base["perm"],
                                  "faults": [nosc, {"k": k2, "act": rng.choice(["kill_before", "kill_after"])}]}, ctx, twin)
    ctx.probes["no_scratch_possible"] += 1
    uf = scen.unseen_ops_fault(rng, ops)
    if uf:
        viols += evaluate(wm, knobs, {"seed": base["seed"], "perm": base["perm"], "faults": [uf]}, ctx, twin)
        ctx.probes["unseen_ops_fail"] += 1
    # aftermath histories: abnormal run, developer edits (the files get shorter), fault-free run on the same tree and TMPDIR
    ab = [(ph, f) for ph, f in common.candidates(rng, ops, phm, ["kill_before", "kill_after", "kill_mid", "fail"], False)
          if ph in ("scratch-write", "rename", "scratch-open", "after-rename", "read-after-mutation", "lock-write", "scratch-cleanup")]
    for ph, f in common.weighted_sample(rng, ab, [1] * len(ab), 2 if tier == "quick" else 12):
        devs = []
        for _ in range(rng.randrange(1, 4)):
            devs.append({"kind": rng.choice(["del_stmt", "del_stmt", "add_stmt", "del_top"]), "pick": rng.randrange(1000),
                         "shape": "bare", "macro": "info"})
        viols += aftermath(wm, knobs, {"seed": base["seed"], "perm": True, "faults": [f]}, devs, base["seed"] + 2, ctx, ph)
        ctx.probes["aftermath_history"] += 1
        ctx.nontrivial.add("%d.am.%d.%s" % (idx, f["k"], f["act"]))
    for plan in plans:
        f0 = plan["faults"][0]
        vs = evaluate(wm, knobs, plan, ctx, twin)
        k = f0["k"]
        op = ops[k - 1] if k <= K else None
        ph = scen.phase_of(phm, k, K)
        ctx.sites.add("%s/%s/%s/%s" % (op.kind if op else "END", op.cls() if op else "-", ph, f0["act"]))
        ctx.nontrivial.add("%d.%d.%s.%s" % (idx, k, f0["act"], f0.get("errno", "")))
        if f0["act"].startswith("kill") and ph in ("scratch-write", "rename", "scratch-open"):
            ctx.probes["kill_with_scratch_open"] += 1
        if first_rename and k > first_rename:
            ctx.probes["fault_after_first_rename"] += 1
        if f0.get("errno") == "EXDEV":
            ctx.probes["exdev_rename"] += 1
        if f0["act"] == "kill_mid":
            ctx.probes["kill_mid_write"] += 1
        viols += vs
    return viols


def aftermath(wm0, knobs, plan, devs, seed2, ctx, phase="?"):
    """A killed (or failed) edit run, then developer edits, then a fault-free edit run on the same tree and the same
    TMPDIR: whatever the first run left behind must not leak into the files the second one writes."""
    import copy
    wm = copy.deepcopy(wm0)
    root = core.new_root("a")
    viols = []
    try:
        core.materialise(world.wm_world(wm), root)
        r1 = core.run_breadlog(root, check=False, plan=plan, knobs=knobs)
        ctx.count_run(r1)
        d1 = core.read_world(root)
        info = world.sync_model(wm, d1)
        if info["torn"] or info["missing"]:
            return viols  # the single-run oracle reports that
        descs = [world.dev_apply(wm, e, root) for e in devs]
        before = core.read_world(root)
        r2 = core.run_breadlog(root, check=False, plan={"seed": seed2, "perm": True, "faults": []}, knobs=knobs)
        ctx.count_run(r2)
        after = core.read_world(root)
        scenario = {"wm": world.wm_to_json(wm0), "knobs": knobs, "plan": plan, "devs": devs, "seed2": seed2, "phase": phase}
        digest = hashlib.sha256((r1.trace_digest() + r2.trace_digest() + core.digest_world(after)).encode()).hexdigest()
        fcls = scen.fault_class(plan["faults"][0])
        for p in sorted(wm["files"]):
            b, a = before.get(p), after.get(p)
            if b is None:
                continue
            if a is None or a["t"] != "f" or core.explain(b["data"], a["data"]) is None:
                viols.append({"signature": "aftermath-torn-source|%s|%s|%s" % (r2.ending(), fcls, phase),
                              "what": "after %s at op %s (%s), developer edits %s and a fault-free second run, %s is not its "
                                      "pre-run content plus tokens (%d B -> %s B)"
                                      % (fcls, plan["faults"][0].get("k"), phase, [d for d in descs if d], p, len(b["data"]),
                                         len(a["data"]) if a and a["t"] == "f" else "-"),
                              "scenario": scenario, "digest": digest})
                break
        if r2.mode != "exited" or r2.status != 0:
            viols.append({"signature": "aftermath-second-run-fails|%s|%s|%s" % (r2.ending(), fcls, phase),
                          "what": "the fault-free run after %s at %s ended %s" % (fcls, phase, r2.ending()),
                          "scenario": scenario, "digest": digest})
        return viols
    finally:
        core.rm_root(root)


def replay(scenario, ctx):
    wm = world.wm_from_json(scenario["wm"])
    if "devs" in scenario:
        return aftermath(wm, scenario["knobs"], scenario["plan"], scenario["devs"], scenario["seed2"], ctx, scenario.get("phase", "?"))
    return evaluate(wm, scenario["knobs"], scenario["plan"], ctx)


def shrink_candidates(scenario):
    if "devs" in scenario:
        for i in range(len(scenario["devs"])):
            s2 = dict(scenario)
            s2["devs"] = scenario["devs"][:i] + scenario["devs"][i + 1:]
            if s2["devs"]:
                yield s2
        return
    for s in common.shrink_single(scenario, check=False):
        yield s
