"""C06 - after a successful edit the tree is a fixpoint and every insertion round-trips."""
import copy
import hashlib
import re

from .. import core, scen, world

ID = "C06"
LEVEL = "exploration"
TECHNIQUE = ("deterministic simulation of run histories of the real binary on one seeded world (edit -> check -> edit, then one "
             "read-back probe history per inserted reference); fixpoint and round-trip oracle over the recorded history")
LEVEL_TEXT = ("Histories edit -> --check -> edit on generated trees over all planted statement shapes (bare/qualified, format args, "
              "target, key-values, multi-line, escapes, no-kvp/ignore directives, pre-existing references) x both styles x lock "
              "on/off: the check must pass, the second edit must change no byte and keep the lock value. Then, per statement that "
              "received an ID, a probe history rewrites that one number to a fresh large M, removes the lock, adds a statement and "
              "runs edit: the new ID must exceed M, which holds iff the edited statement is still recognised and read back with its "
              "number. In 30% of the cases the first edit additionally meets one I/O error on a scratch file: if it still exits 0 the "
              "same consequences are demanded. Sampled inputs: exploration.")
LEVEL_NOTE = ("Trusted: the tool's own scan-for-the-maximum is the observer of read-back (no parser model in the harness); planted "
              "shapes are forms the log crate accepts.")
RULE = ("case = generated tree; 3 runs + 1 run per inserted reference (capped at 8 probes). Non-trivial = first edit inserted at "
        "least one reference; distinct = case index.")
PROBES = ["first_edit_faulted", "first_edit_faulted_exit0", "structured", "unstructured", "target_shape", "kv_shape", "multiline_shape", "no_kvp_directive", "ignore_directive",
          "lock_in_use", "probe_runs", "preexisting_refs"]
PROBES_ZERO_EXPECTED = {"first_edit_faulted_exit0": "since fix e72da6f an edit run that met an I/O error on a scratch file exits non-zero, and C06 "
                        "speaks about runs that exit 0; the sub-scenario stays so that a change which lets such a run exit 0 again is "
                        "followed through check and second edit"}
ASSUMPTIONS = ["fault-free runs; developer edits in the probe touch one number, the lock and one other file only"]
DEADLINE = {"quick": 200, "thorough": 3000}
M0 = 3000000


def n_cases(tier):
    return 1200 if tier == "quick" else 20000


def shape_label(text):
    parts = []
    if "log::" in text.split("!(")[0]:
        parts.append("qual")
    if "target:" in text:
        parts.append("target")
    if re.search(r"\b(attempt|user)\b", text):
        parts.append("kv")
    if re.search(r"[(,;] ?(state|count)(:[?%a-z]+)?[,;]", text):
        parts.append("kvshort")
    if "\n" in text.strip("\n"):
        parts.append("multi")
    if "{}" in text:
        parts.append("fmt")
    if "\\\"" in text:
        parts.append("esc")
    return "+".join(parts) or "bare"


def gen(rng):
    structured = rng.random() < 0.5
    shapes = world.STRUCT_SHAPES if structured else world.UNSTRUCT_SHAPES
    wm = world.gen_world_model(rng, structured=structured, use_cache=rng.choice([True, None, False]), nfiles=rng.randrange(1, 4),
                               sizes=rng.choice([["tiny", "tiny", "k8"]] * 4 + [["tiny", "k8"], ["tiny", "k64", "k160"], ["tiny", "k160", "k256"]]),
                               p_have=0.3, max_stmts=4, min_missing=1, shapes=shapes,
                               lock=rng.choice(["absent", "ahead"]), big_p=0.006,
                               many_files=rng.choice([40, 70]) if rng.random() < 0.015 else None)
    tags = set()
    # directives in front of some statements
    for p, segs in wm["files"].items():
        i = 0
        while i < len(segs):
            s = segs[i]
            if s[0] == "stmt" and rng.random() < 0.15:
                d = rng.choice(["    // breadlog:no-kvp\n", "    /* breadlog:no-kvp */\n", "    // breadlog:ignore\n",
                                "    // Breadlog:Ignore \n\n"])
                segs.insert(i, ["pad", d])
                tags.add("no_kvp_directive" if "no-kvp" in d else "ignore_directive")
                i += 1
            i += 1
    knobs = {"threads": rng.randrange(1, 5), "config_arg": rng.choice(["rel", "abs"])}
    if len(wm["files"]) > 30:
        knobs["nofile"] = 16      # descriptors are a bounded resource (scen.env_knobs)
    seed = rng.getrandbits(40) | 1
    return wm, knobs, seed, tags


def run_on(root, check, seed, knobs, ctx):
    res = core.run_breadlog(root, check=check, plan={"seed": seed, "perm": True, "faults": []}, knobs=knobs)
    ctx.count_run(res)
    if res.mode == "timeout":
        raise core.HarnessError("timeout in C06")
    return res


def evaluate(wm0, knobs, seed, ctx, max_probes=8, first_fault=None):
    wm = copy.deepcopy(wm0)
    style = "structured" if wm["cfg"].get("structured") else "unstructured"
    scenario = {"wm": world.wm_to_json(wm0), "knobs": knobs, "seed": seed, "first_fault": first_fault}
    viols = []
    dg = hashlib.sha256()
    ftag = "|first-edit-ioerr" if first_fault else ""

    def V(sym, what):
        viols.append({"signature": "%s|%s%s" % (sym, style, ftag), "what": what, "scenario": scenario, "digest": None})

    root = core.new_root("f")
    inserted = []
    try:
        core.materialise(world.wm_world(wm), root)
        if first_fault:
            r1 = core.run_breadlog(root, check=False, plan={"seed": seed, "perm": True, "faults": [first_fault]}, knobs=knobs)
            ctx.count_run(r1)
            if r1.mode == "timeout":
                raise core.HarnessError("timeout in C06")
            if r1.fired_counts():
                ctx.probes["first_edit_faulted"] += 1
                if r1.mode == "exited" and r1.status == 0:
                    ctx.probes["first_edit_faulted_exit0"] += 1
        else:
            r1 = run_on(root, False, seed, knobs, ctx)
        dg.update(r1.trace_digest().encode())
        d1 = core.read_world(root)
        info = world.sync_model(wm, d1)
        if info["torn"]:
            if not first_fault:
                V("not-insert-only", "%s after the first edit" % info["torn"][0])
            return viols, inserted
        inserted = info["inserted"]
        if r1.mode != "exited" or r1.status != 0:
            # C06 speaks about edit runs that exit 0
            ctx.notes["first_edit_nonzero"] += 1
            return viols, inserted
        r2 = run_on(root, True, seed + 2, knobs, ctx)
        dg.update(r2.trace_digest().encode())
        if r2.mode != "exited" or r2.status != 0:
            rep = core.parse_report(r2.stdout + r2.stderr)
            V("check-fails-after-edit", "edit exited 0 but the following --check ends %s, reporting %s" % (r2.ending(), rep["missing"][:3]))
        r3 = run_on(root, False, seed + 4, knobs, ctx)
        dg.update(r3.trace_digest().encode())
        d3 = core.read_world(root)
        ch = [p for p, _h in core.diff_worlds(d1, d3, ignore=("tmp",)) if p != "proj/Breadlog.lock"]
        if ch:
            det = []
            for p in ch[:3]:
                b, a = d1.get(p), d3.get(p)
                ins = core.explain(b["data"], a["data"]) if (b and a and b["t"] == "f" and a["t"] == "f") else None
                det.append((p, len(b["data"]) if b and b["t"] == "f" else None, len(a["data"]) if a and a["t"] == "f" else None,
                            [(o, t.decode()) for o, t, _n in ins][:3] if ins is not None else "not-insert-only"))
            V("second-edit-changes-files", "a second edit run (exit %s) changed %s; first edit exit %s, check exit %s"
              % (r3.status, det, r1.status, r2.status))
        l1, l3 = d1.get("proj/Breadlog.lock"), d3.get("proj/Breadlog.lock")
        v1 = core.read_lock(l1["data"]) if l1 else None
        v3 = core.read_lock(l3["data"]) if l3 else None
        if v1 != v3:
            V("lock-changes-on-second-edit", "lock value %s after the first edit, %s after the second" % (v1, v3))
    finally:
        core.rm_root(root)
    for v in viols:
        v["digest"] = dg.hexdigest()
    # read-back probes
    for n, (p, mk, idn, tok) in enumerate(inserted[:max_probes]):
        if mk is None:
            continue
        M = M0 + n * 1000
        w2 = copy.deepcopy(wm)
        seg = [s for s in w2["files"][p] if s[0] == "stmt" and s[1] == mk][0]
        newtok = tok.replace(str(idn), str(M), 1)
        if seg[2].count(tok) != 1:
            continue
        shape = shape_label(seg[2].replace(tok, ""))
        seg[2] = seg[2].replace(tok, newtok)
        w2["lock"] = None
        other = "proj/src/probe_%d.rs" % n
        mod0, mac0 = (wm["cfg"].get("macros") or world.DEFAULT_MACROS)[0]
        w2["files"][other] = [["pad", "fn probe() {\n"], ["stmt", "mkPROBEq", world.render_stmt("bare", "mkPROBEq", mac0, None,
                                                                                                 style == "structured", "probe",
                                                                                                 module=mod0)],
                              ["pad", "}\n"]]
        run = scen.exec_run(w2, False, {"seed": seed + 10 + n, "perm": True, "faults": []}, knobs, ctx)
        ctx.probes["probe_runs"] += 1
        b, a = run["before"][other]["data"], run["after"][other]["data"]
        ins = core.explain(b, a)
        newid = ins[0][2] if ins else None
        if newid is None or newid <= M:
            viols.append({"signature": "not-read-back|%s|%s" % (style, shape),
                          "what": "statement %s (%s) received %r; after setting its number to %d a new statement elsewhere got ID %s "
                                  "(<= %d): the edited statement is not read back with its ID. Statement now: %s"
                                  % (mk, shape, tok, M, newid, M, seg[2].strip()[:160]),
                          "scenario": scenario, "digest": dg.hexdigest()})
    return viols, inserted


def run_case(rng, idx, tier, ctx):
    wm, knobs, seed, tags = gen(rng)
    first_fault = None
    if rng.random() < 0.3:
        # "after an edit run that exits 0": also one that met an I/O error on a scratch file on the way
        kind = rng.choice(["WRITE", "WRITE", "OPEN_W", "RENAME"])
        first_fault = {"from": 1, "kinds": [kind], "pre": "tmp/", "nth": rng.randrange(1, 6), "act": "fail",
                       "errno": rng.choice(["EIO", "ENOSPC", "EDQUOT"] if kind == "WRITE" else ["EACCES", "ENOSPC", "EXDEV"][:3])}
    viols, inserted = evaluate(wm, knobs, seed, ctx, max_probes=(8 if tier == "quick" else 12) if not first_fault else 0,
                               first_fault=first_fault)
    for t in tags:
        ctx.probes[t] += 1
    ctx.probes["structured" if wm["cfg"].get("structured") else "unstructured"] += 1
    if world.cfg_uses_lock(wm["cfg"]):
        ctx.probes["lock_in_use"] += 1
    if world.wm_ids(wm):
        ctx.probes["preexisting_refs"] += 1
    for segs in wm["files"].values():
        for s in world.file_stmts(segs):
            lab = shape_label(s[2])
            if "target" in lab:
                ctx.probes["target_shape"] += 1
            if "kv" in lab:
                ctx.probes["kv_shape"] += 1
            if "multi" in lab:
                ctx.probes["multiline_shape"] += 1
    if inserted:
        ctx.nontrivial.add(str(idx))
    if not ctx.samples:
        ctx.samples.append({"cfg": wm["cfg"], "files": sorted(wm["files"]),
                            "statements": [s[2].strip()[:120] for segs in wm["files"].values() for s in world.file_stmts(segs)][:8],
                            "inserted": [(p, mk, n, t) for p, mk, n, t in inserted][:8]})
    return viols


def replay(scenario, ctx):
    wm = world.wm_from_json(scenario["wm"])
    vs, _ = evaluate(wm, scenario["knobs"], scenario["seed"], ctx, first_fault=scenario.get("first_fault"),
                     max_probes=0 if scenario.get("first_fault") else 8)
    return vs


def shrink_candidates(scenario):
    from . import common
    wm = world.wm_from_json(scenario["wm"])
    for w2 in common.world_reductions(wm):
        s2 = dict(scenario)
        s2["wm"] = world.wm_to_json(w2)
        yield s2
