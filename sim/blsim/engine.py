"""Check driver: seeded search over cases on a worker pool, violation grouping by signature,
minimisation, replay files, known-findings handling and the evidence file."""
import collections
import hashlib
import importlib
import json
import multiprocessing
import os
import random
import sys
import time
import traceback

from . import core

DEFAULT_SEED = 20261003
KNOWN_FILE = os.path.join(core.VERIF, "known_findings.json")
REPLAY_DIR = os.path.join(core.VERIF, "replays")
# evidence describes /repo itself; runs against a scratch copy (sensitivity suite) must not overwrite it
EVIDENCE_DIR = os.path.join(core.VERIF, "evidence") if core.REPO == "/repo" else os.path.join(core.BUILD_DIR, "evidence-scratch")


def derive_seed(seed, prop, idx):
    h = hashlib.sha256(("%d|%s|%d" % (seed, prop, idx)).encode()).digest()
    return int.from_bytes(h[:8], "big")


class Ctx:
    """Per-case statistics; merged by the driver."""

    def __init__(self):
        self.runs = 0
        self.ops = 0
        self.fired = collections.Counter()
        self.sites = set()
        self.states = collections.Counter()
        self.probes = collections.Counter()
        self.nontrivial = set()
        self.samples = []
        self.notes = collections.Counter()
        self.log = hashlib.sha256()   # event log of the case: every run's normalised trace, ending and output

    def count_run(self, res):
        self.runs += 1
        self.log.update(res.trace_digest().encode())
        self.log.update(("|%s|%s|" % (res.mode, res.status)).encode())
        self.log.update(res.norm_output().encode("utf-8", "surrogateescape"))
        self.ops += len(res.ops)
        for k, v in res.fired_counts().items():
            self.fired[k] += v
        if res.contended:
            self.probes["concurrent_ops"] += 1

    def export(self):
        return {"runs": self.runs, "ops": self.ops, "fired": dict(self.fired), "sites": sorted(self.sites),
                "states": dict(self.states), "probes": dict(self.probes), "nontrivial": sorted(self.nontrivial),
                "samples": self.samples[:2], "notes": dict(self.notes), "log": self.log.hexdigest()}


def load_prop(pid):
    return importlib.import_module("blsim.props.%s" % pid)


def _worker(args):
    pid, seed, idx, tier = args
    mod = load_prop(pid)
    rng = random.Random(derive_seed(seed, pid, idx))
    ctx = Ctx()
    try:
        viols = mod.run_case(rng, idx, tier, ctx) or []
        err = None
    except core.HarnessError as e:
        viols, err = [], "HarnessError: %s" % e
    except Exception:
        viols, err = [], traceback.format_exc()
    # Every simulated execution is a pure function of its scenario, so a genuine violation reproduces when the scenario is
    # executed again.  The first report of each signature is therefore re-executed on the spot; one that does not come back
    # is not a violation of the code under test but a disturbance of the harness (something outside the simulator touched
    # the scratch worlds, a process was killed from outside, ...) and is reported as a harness error.
    per = collections.Counter()
    kept = []
    confirmed = {}
    unconfirmed = []
    for v in viols:
        sig = v["signature"]
        if sig not in confirmed:
            try:
                if sig.startswith("hang"):
                    # a hang is a run that never ends, not one that is slow on a busy machine: the re-execution gets six
                    # times the time limit (a deadlock or endless loop is still there after two minutes)
                    core.TIMEOUT_SCALE = 6.0
                # up to three re-executions: code under test that races inside the process (threads the seam does not
                # schedule) reproduces a violation only some of the time
                confirmed[sig] = False
                for _attempt in range(1 if sig.startswith("hang") else 3):
                    again = mod.replay(v["scenario"], Ctx())
                    if any(a["signature"] == sig for a in again):
                        confirmed[sig] = True
                        break
            except Exception:
                confirmed[sig] = False
            finally:
                core.TIMEOUT_SCALE = 1.0
            if not confirmed[sig]:
                if sig.startswith("hang"):
                    # a run that exceeded the time limit once and finishes in time when repeated was slowed down by the
                    # machine, not hung (a genuine hang reproduces): noted, neither a violation nor an error
                    ctx.notes["slow_run_not_reproduced"] += 1
                else:
                    unconfirmed.append(sig)
        if not confirmed[sig]:
            continue
        per[sig] += 1
        if per[sig] <= 2:
            kept.append(v)
    counts = dict(per)
    for v in kept:
        v["what"] = core.safe(v.get("what", ""))
        v["signature"] = core.safe(v["signature"])
    if unconfirmed and not err:
        err = "unconfirmed violation(s) %s: reported once, not reproduced on immediate re-execution of the same scenario" % unconfirmed
    st = ctx.export()
    st["verdict"] = sorted(counts.items())
    return idx, kept, counts, st, err


def load_known():
    if not os.path.exists(KNOWN_FILE):
        return []
    with open(KNOWN_FILE) as f:
        return json.load(f)


def shrink(mod, viol, budget=60):
    """Greedy minimisation: keep a candidate only if re-execution yields the same signature."""
    if not hasattr(mod, "shrink_candidates"):
        return viol, 0
    sig = viol["signature"]
    if sig.startswith("hang"):
        budget = min(budget, 4)  # every candidate costs a full run timeout
    cur = viol
    used = 0
    progress = True
    while progress and used < budget:
        progress = False
        for cand in mod.shrink_candidates(cur["scenario"]):
            if used >= budget:
                break
            used += 1
            try:
                vs = mod.replay(cand, Ctx())
            except Exception:
                continue
            hit = [v for v in vs if v["signature"] == sig]
            if hit:
                cur = hit[0]
                progress = True
                break
    return cur, used


def write_replay(pid, seed, n, viol):
    os.makedirs(REPLAY_DIR, exist_ok=True)
    path = os.path.join(REPLAY_DIR, "%s-%d-%s.json" % (pid, seed, n))
    doc = {"property": pid, "signature": viol["signature"], "what": viol.get("what", ""),
           "scenario": viol["scenario"], "digest": viol.get("digest"), "repo_rev": core.repo_rev()}
    with open(path, "w") as f:
        json.dump(doc, f, indent=1, sort_keys=True)
    return path


def write_evidence(pid, mod, tier, seed, wall, agg, n_cases, n_done, viol_total, unlisted, known_hit, errors, truncated):
    os.makedirs(EVIDENCE_DIR, exist_ok=True)
    runs = agg["runs"]
    cov = {
        "evaluations": max(runs, 0),
        "distinct_nontrivial": len(agg["nontrivial"]),
        "rule": mod.RULE,
        "samples": agg["samples"][:4] or ["(no case completed)"],
        "cases": n_done,
        "cases_planned": n_cases,
        "cases_skipped_by_deadline": truncated,
        "operations_executed": agg["ops"],
        "runs_per_hour": int(runs / wall * 3600) if wall > 0 else 0,
        "cases_per_hour": int(n_done / wall * 3600) if wall > 0 else 0,
        "seeds_per_hour": int(n_done / wall * 3600) if wall > 0 else 0,
        "seeds": "one derived seed per case: sha256(VERIF_SEED | property | case index)",
        "distinct_states_measure": "distinct_fault_sites = distinct (operation kind, path class, phase, action) at which a fault/kill/"
                                   "signal fired; post_state_classes = per-file outcomes (original / updated / unchanged-noop / other) "
                                   "summed over runs; distinct_nontrivial = distinct (case, plan) pairs whose fault fired",
        "simulated_time": "not applicable (no clock-dependent behaviour); operations_executed is the measure of simulated work",
        "faults_fired": agg["fired"],
        "distinct_fault_sites": len(agg["sites"]),
        "fault_sites": sorted(agg["sites"])[:200],
        "post_state_classes": agg["states"],
        "probes": agg["probes"],
        "reach_warnings": [p for p in getattr(mod, "PROBES", []) if not agg["probes"].get(p)
                           and p not in getattr(mod, "PROBES_ZERO_EXPECTED", {})],
        "probes_expected_at_zero": getattr(mod, "PROBES_ZERO_EXPECTED", {}),
        "notes": agg["notes"],
        "violation_signatures_unlisted": unlisted,
        "known_findings_met": known_hit,
        "harness_errors": errors[:5],
        "real_components": "breadlog release binary built from /repo (main, config, finder, parser, generator), async-std, "
                           "blocking, std, signal-hook, serde_yaml, walkdir, uuid, glibc, kernel tmpfs",
        "simulated_components": "outcomes of filesystem calls (faults), process death, signal arrival, directory order, "
                                "getrandom, wall clock and its starting point, st_dev of a declared mount point, stdout's reader, operation latency "
                                "(stall), RLIMIT_NOFILE (LD_PRELOAD seam and process launcher); developer edits and world contents "
                                "(generator)",
        "repo_rev": core.repo_rev(),
    }
    doc = {"property_id": pid, "tier": tier, "seed": seed, "level": mod.LEVEL, "coverage": cov,
           "assumptions": getattr(mod, "ASSUMPTIONS", []), "wall_s": round(wall, 2), "violations": viol_total}
    path = os.path.join(EVIDENCE_DIR, "%s.json" % pid)
    tmp = path + ".tmp"
    with open(tmp, "w") as f:
        json.dump(doc, f, indent=1, sort_keys=True, default=str)
    os.replace(tmp, path)


def run_check(pid, tier, seed, workers, deadline_s=None, n_override=None, do_shrink=True, dump=None):
    t0 = time.monotonic()
    try:
        core.build()
    except core.HarnessError as e:
        print("HARNESS-ERROR: %s" % e)
        return 2
    mod = load_prop(pid)
    if os.path.isdir(REPLAY_DIR):
        for fn in os.listdir(REPLAY_DIR):
            if fn.startswith("%s-" % pid):
                os.unlink(os.path.join(REPLAY_DIR, fn))
    n_cases = n_override or mod.n_cases(tier)
    if deadline_s is None:
        deadline_s = mod.DEADLINE.get(tier, 600) if hasattr(mod, "DEADLINE") else (240 if tier == "quick" else 3600)
    print("check %s tier=%s seed=%d cases=%d workers=%d repo=%s" % (pid, tier, seed, n_cases, workers, core.repo_rev()))
    sys.stdout.flush()
    agg = {"runs": 0, "ops": 0, "fired": collections.Counter(), "sites": set(), "states": collections.Counter(),
           "probes": collections.Counter(), "nontrivial": set(), "samples": [], "notes": collections.Counter()}
    results = {}
    errors = []
    truncated = 0
    core.sweep_stale_roots()
    submitted = 0
    done = 0
    worker_pids = []
    pool = None

    def absorb(r):
        idx, viols, counts, st, err = r
        results[idx] = (viols, counts)
        if dump is not None:
            dump[idx] = (st["log"], st["verdict"], err)
        if err:
            errors.append("case %d: %s" % (idx, err))
        agg["runs"] += st["runs"]
        agg["ops"] += st["ops"]
        agg["fired"].update(st["fired"])
        agg["sites"].update(st["sites"])
        agg["states"].update(st["states"])
        agg["probes"].update(st["probes"])
        agg["notes"].update(st["notes"])
        agg["nontrivial"].update(st["nontrivial"])
        if len(agg["samples"]) < 4 and st["samples"]:
            agg["samples"].append(st["samples"][0])

    try:
        if workers <= 1:
            for i in range(n_cases):
                if time.monotonic() - t0 > deadline_s:
                    break
                submitted += 1
                absorb(_worker((pid, seed, i, tier)))
                done += 1
        else:
            # Cases are handed out through a bounded window: after the deadline no new case starts, cases in flight finish
            # normally, so no simulated process is orphaned and no world is left behind.
            import queue
            pool = multiprocessing.Pool(workers)
            worker_pids = [p.pid for p in getattr(pool, "_pool", [])]
            q = queue.Queue()
            inflight = 0
            nxt = 0
            window = workers * 3
            while True:
                while inflight < window and nxt < n_cases and time.monotonic() - t0 <= deadline_s:
                    pool.apply_async(_worker, ((pid, seed, nxt, tier),), callback=q.put,
                                     error_callback=lambda e, i=nxt: q.put((i, [], {}, Ctx().export() | {"verdict": []}, "worker: %r" % e)))
                    nxt += 1
                    inflight += 1
                    submitted += 1
                if inflight == 0:
                    break
                absorb(q.get())
                inflight -= 1
                done += 1
        truncated = n_cases - submitted
    finally:
        if pool:
            pool.close()
            pool.join()
        core.remove_roots_of(worker_pids)
    # merge violations in case order
    by_sig = collections.OrderedDict()
    total = 0
    for idx in sorted(results):
        viols, counts = results[idx]
        for s, c in counts.items():
            total += c
        for v in viols:
            by_sig.setdefault(v["signature"], []).append(v)
    known = [k for k in load_known() if k.get("property") == pid]
    known_sigs = {k["signature"]: k for k in known if k.get("status") == "known"}
    unlisted, known_hit = [], []
    rc = 0
    n = 0
    for sig, vs in by_sig.items():
        if sig in known_sigs:
            known_hit.append(sig)
            print("KNOWN-FINDING: property=%s %s -- %s" % (pid, sig, known_sigs[sig].get("what", "")))
            try:
                write_replay(pid, seed, "known%d" % len(known_hit), vs[0])   # a current replay of the recorded finding
            except Exception:
                pass
            continue
        unlisted.append(sig)
        v = vs[0]
        used = 0
        if do_shrink and len(unlisted) <= 12:
            try:
                v, used = shrink(mod, v)
            except Exception:
                pass
        n += 1
        path = write_replay(pid, seed, n, v)
        print("VIOLATION property=%s replay=%s" % (pid, path))
        print("  signature: %s" % sig)
        print("  what: %s" % v.get("what", ""))
        rc = 1
    if errors:
        for e in errors[:3]:
            print("HARNESS-ERROR: %s" % e.strip().split("\n")[-1])
        if rc == 0:
            rc = 2
    if dump is not None:
        with open(dump.pop("__path__"), "w") as f:
            for i in sorted(dump):
                f.write("%d\t%s\t%s\t%s\n" % (i, dump[i][0], dump[i][1], (dump[i][2] or "").replace("\n", " ")[:200]))
    wall = time.monotonic() - t0
    write_evidence(pid, mod, tier, seed, wall, agg, n_cases, done, total, unlisted, known_hit, errors, truncated)
    print("%s: cases=%d/%d runs=%d ops=%d violations=%d unlisted_signatures=%d known=%d wall=%.1fs"
          % (pid, done, n_cases, agg["runs"], agg["ops"], total, len(unlisted), len(known_hit), wall))
    for w in [p for p in getattr(mod, "PROBES", []) if not agg["probes"].get(p) and p not in getattr(mod, "PROBES_ZERO_EXPECTED", {})]:
        print("  reach-warning: probe %s stayed at zero" % w)
    return rc


def run_replay(path):
    with open(path) as f:
        doc = json.load(f)
    try:
        core.build()
    except core.HarnessError as e:
        print("HARNESS-ERROR: %s" % e)
        return 2
    pid = doc["property"]
    mod = load_prop(pid)
    ctx = Ctx()
    try:
        viols = mod.replay(doc["scenario"], ctx)
    except core.HarnessError as e:
        print("HARNESS-ERROR: %s" % e)
        return 2
    hit = [v for v in viols if v["signature"] == doc["signature"]]
    if hit:
        same = (doc.get("digest") is None) or (hit[0].get("digest") == doc.get("digest"))
        print("VIOLATION property=%s replay=%s" % (pid, path))
        print("  signature: %s" % doc["signature"])
        print("  what: %s" % hit[0].get("what", ""))
        print("  exact-reproduction: %s" % ("yes (trace and post-state digests equal)" if same else
                                           "signature reproduced; digests differ (code under test changed since recording?)"))
        return 1
    others = [v["signature"] for v in viols]
    print("not reproduced: property=%s expected=%s got=%s" % (pid, doc["signature"], others))
    return 0
