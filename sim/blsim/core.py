"""Core of the Breadlog simulator: build, world materialisation, one simulated run under the
seam (simshim.so), trace parsing, snapshots and the insert-only relation.

Python 3.11 stdlib only.  Nothing here draws from a PRNG or reads a real clock for anything
that influences a simulated execution.
"""
import base64
import hashlib
import os
import re
import shutil
import stat
import signal
import subprocess
import sys
import time

VERIF = os.path.dirname(os.path.dirname(os.path.dirname(os.path.abspath(__file__))))
REPO = os.environ.get("BLSIM_REPO", "/repo")
BUILD_DIR = os.environ.get("BLSIM_BUILD_DIR", os.path.join(VERIF, ".build"))
BIN = os.path.join(BUILD_DIR, "target", "release", "breadlog")
SHIM_SRC = os.path.join(VERIF, "sim", "shim", "simshim.c")
SHIM = os.path.join(BUILD_DIR, "simshim.so")
RUN_TIMEOUT = 20.0
TIMEOUT_SCALE = 1.0     # raised while a suspected hang is re-executed (engine: confirm step)

MUTATING_KINDS = {"WRITE", "RENAME", "UNLINK", "MKDIR", "RMDIR", "LINK", "SYMLINK", "TRUNCATE", "CHMOD", "COPY"}
O_CREAT = 0o100
O_TRUNC = 0o1000
O_ACCMODE = 3

ERRNO = {"EPERM": 1, "ENOENT": 2, "EINTR": 4, "EPIPE": 32, "EINVAL": 22, "EFBIG": 27, "ENOSYS": 38, "EOPNOTSUPP": 95, "EAGAIN": 11, "EIO": 5, "EACCES": 13, "EXDEV": 18, "EMFILE": 24, "ENOSPC": 28,
         "EROFS": 30, "EDQUOT": 122, "EBUSY": 16}


class HarnessError(Exception):
    pass


def safe(s):
    """Printable / JSON-able form of a string that may carry undecodable file-name bytes (surrogate escapes)."""
    return s.encode("utf-8", "backslashreplace").decode("utf-8") if isinstance(s, str) else s


# --------------------------------------------------------------------------------------------
# build

def build(quiet=True):
    """Build the release binary from /repo's current working tree and the shim. Raises HarnessError."""
    os.makedirs(BUILD_DIR, exist_ok=True)
    if os.environ.get("BLSIM_SKIP_BUILD") and os.path.exists(BIN):
        # reach measurement only (tools/coverage.sh): a separately built, coverage-instrumented binary is already in place
        if not os.path.exists(SHIM):
            subprocess.run(["gcc", "-O2", "-w", "-shared", "-fPIC", "-o", SHIM, SHIM_SRC, "-ldl", "-lpthread"], check=True)
        return BIN
    env = dict(os.environ)
    env["CARGO_NET_OFFLINE"] = "true"
    env.pop("RUSTFLAGS", None)
    cmd = ["cargo", "build", "--release", "--offline", "--manifest-path", os.path.join(REPO, "Cargo.toml"),
           "--target-dir", os.path.join(BUILD_DIR, "target"), "--bin", "breadlog"]
    p = subprocess.run(cmd, env=env, stdout=subprocess.PIPE, stderr=subprocess.STDOUT, text=True)
    if p.returncode != 0 or not os.path.exists(BIN):
        raise HarnessError("cargo build failed:\n" + p.stdout[-4000:])
    need = (not os.path.exists(SHIM)) or os.path.getmtime(SHIM) < os.path.getmtime(SHIM_SRC)
    if need:
        tmp = SHIM + ".%d.tmp" % os.getpid()
        p = subprocess.run(["gcc", "-O2", "-w", "-shared", "-fPIC", "-o", tmp, SHIM_SRC, "-ldl", "-lpthread"],
                           stdout=subprocess.PIPE, stderr=subprocess.STDOUT, text=True)
        if p.returncode != 0:
            raise HarnessError("shim build failed:\n" + p.stdout[-4000:])
        os.replace(tmp, SHIM)
    return BIN


def repo_rev():
    try:
        head = subprocess.run(["git", "-C", REPO, "rev-parse", "HEAD"], stdout=subprocess.PIPE, text=True).stdout.strip()
        dirty = subprocess.run(["git", "-C", REPO, "status", "--porcelain", "--untracked-files=no"],
                               stdout=subprocess.PIPE, text=True).stdout.strip()
        return head + ("+dirty" if dirty else "")
    except Exception:
        return "unknown"


# --------------------------------------------------------------------------------------------
# scratch space

def scratch_base():
    for cand in ("/dev/shm", os.environ.get("TMPDIR") or "/tmp"):
        if os.path.isdir(cand) and os.access(cand, os.W_OK):
            return cand
    raise HarnessError("no scratch directory")


_counter = [0]


def new_root(tag="w"):
    _counter[0] += 1
    # fixed-length name: the length of the root path must not leak into the simulated run (absolute paths in
    # configuration files and arguments change read sizes)
    root = os.path.join(scratch_base(), "blsim-%08d-%s-%07d" % (os.getpid(), tag[:1], _counter[0]))
    if os.path.exists(root):
        shutil.rmtree(root, ignore_errors=True)
    os.makedirs(root)
    return root


def sweep_stale_roots(max_age_s=1800):
    """Remove scratch worlds that a crashed or killed earlier batch left behind (a world lives for seconds)."""
    base = scratch_base()
    now = time.time()
    try:
        names = os.listdir(base)
    except OSError:
        return
    for n in names:
        if not n.startswith("blsim-0"):
            continue
        full = os.path.join(base, n)
        try:
            if now - os.lstat(full).st_mtime > max_age_s:
                rm_root(full)
        except OSError:
            pass


def remove_roots_of(pids):
    base = scratch_base()
    pre = tuple("blsim-%08d-" % p for p in pids)
    if not pre:
        return
    try:
        names = os.listdir(base)
    except OSError:
        return
    for n in names:
        if n.startswith(pre):
            rm_root(os.path.join(base, n))


def rm_root(root):
    # restore permissions so that rmtree works on worlds with unreadable dirs
    for dp, dn, fn in os.walk(root):
        try:
            os.chmod(dp, 0o755)
        except OSError:
            pass
    shutil.rmtree(root, ignore_errors=True)


# --------------------------------------------------------------------------------------------
# world <-> disk.  A world is {"relpath": entry}: entry = {"t":"f","data":bytes,"mode":int} |
# {"t":"d","mode":int} | {"t":"l","target":str}.  relpaths are relative to the world root:
# proj/..., tmp/..., outside/...

def enc_bytes(b):
    try:
        s = b.decode("utf-8")
        if "\x00" not in s:
            return {"text": s}
    except UnicodeDecodeError:
        pass
    return {"b64": base64.b64encode(b).decode("ascii")}


def dec_bytes(o):
    if "text" in o:
        return o["text"].encode("utf-8")
    return base64.b64decode(o["b64"])


def world_to_json(world):
    out = {}
    for p, e in world.items():
        if e["t"] == "f":
            out[p] = {"t": "f", "mode": e.get("mode", 0o644), **enc_bytes(e["data"])}
            if e.get("subst"):
                out[p]["subst"] = True
            if e.get("mtime") is not None:
                out[p]["mtime"] = e["mtime"]
        else:
            out[p] = dict(e)
    return out


def world_from_json(js):
    out = {}
    for p, e in js.items():
        if e["t"] == "f":
            out[p] = {"t": "f", "mode": e.get("mode", 0o644), "data": dec_bytes(e)}
            if e.get("subst"):
                out[p]["subst"] = True
            if e.get("mtime") is not None:
                out[p]["mtime"] = e["mtime"]
        else:
            out[p] = dict(e)
    return out


def materialise(world, root):
    for d in ("proj", "tmp", "outside"):
        os.makedirs(os.path.join(root, d), exist_ok=True)
    # directories first, then files, then symlinks; modes last (a dir may be made unreadable)
    items = sorted(world.items())
    for p, e in items:
        if e["t"] == "d":
            os.makedirs(os.path.join(root, p), exist_ok=True)
    for p, e in items:
        full = os.path.join(root, p)
        if e["t"] == "f":
            os.makedirs(os.path.dirname(full), exist_ok=True)
            with open(full, "wb") as f:
                f.write(e["data"].replace(b"@ROOT@", root.encode()) if e.get("subst") else e["data"])
            os.chmod(full, e.get("mode", 0o644))
        elif e["t"] == "l":
            os.makedirs(os.path.dirname(full), exist_ok=True)
            os.symlink(e["target"], full)
    for p, e in items:
        if e["t"] == "p":
            # a named pipe (opening one for reading blocks until somebody writes: only regular files are source files)
            full = os.path.join(root, p)
            os.makedirs(os.path.dirname(full), exist_ok=True)
            os.mkfifo(full, 0o644)
    for p, e in items:
        if e["t"] == "h":
            # a hard link to a file of the world (read back as an ordinary file)
            full = os.path.join(root, p)
            os.makedirs(os.path.dirname(full), exist_ok=True)
            os.link(os.path.join(root, e["to"]), full)
    for p, e in items:
        if e["t"] == "d" and "mode" in e:
            os.chmod(os.path.join(root, p), e["mode"])
    for p, e in items:
        if e.get("mtime") is not None and e["t"] == "f":
            os.utime(os.path.join(root, p), (e["mtime"], e["mtime"]))


def read_world(root):
    """Read the on-disk state back as a world dict (used as snapshot with full contents)."""
    out = {}
    for dp, dn, fn in os.walk(root, followlinks=False):
        dn.sort()
        for name in list(dn) + sorted(fn):
            full = os.path.join(dp, name)
            rel = os.path.relpath(full, root)
            st = os.lstat(full)
            if os.path.islink(full):
                out[rel] = {"t": "l", "target": os.readlink(full)}
            elif os.path.isdir(full):
                out[rel] = {"t": "d", "mode": st.st_mode & 0o7777}
            elif stat.S_ISFIFO(st.st_mode):
                out[rel] = {"t": "p", "mode": st.st_mode & 0o7777}
            else:
                try:
                    with open(full, "rb") as f:
                        data = f.read()
                except OSError:
                    os.chmod(full, 0o644)
                    with open(full, "rb") as f:
                        data = f.read()
                    os.chmod(full, st.st_mode & 0o7777)
                out[rel] = {"t": "f", "mode": st.st_mode & 0o7777, "data": data}
    return out


def digest_world(w):
    h = hashlib.sha256()
    for p in sorted(w):
        e = w[p]
        h.update(p.encode("utf-8", "surrogateescape") + b"\0" + e["t"].encode())
        if e["t"] == "f":
            h.update(b"%o" % e.get("mode", 0o644))
            h.update(hashlib.sha256(e["data"]).digest())
        elif e["t"] == "l":
            h.update(e["target"].encode("utf-8", "surrogateescape"))
        else:
            h.update(b"%o" % e.get("mode", 0o755))
    return h.hexdigest()


def diff_worlds(a, b, ignore=()):
    """Paths whose entry differs between two worlds (added, removed, changed)."""
    out = []
    for p in sorted(set(a) | set(b)):
        if any(p == i or p.startswith(i.rstrip("/") + "/") for i in ignore):
            continue
        ea, eb = a.get(p), b.get(p)
        if ea is None:
            out.append((p, "added"))
        elif eb is None:
            out.append((p, "removed"))
        elif ea != eb:
            if ea["t"] == "d" and eb["t"] == "d" and ea.get("mode", 0o755) == eb.get("mode", 0o755):
                continue
            out.append((p, "changed"))
    return out


# --------------------------------------------------------------------------------------------
# plans

def plan_text(plan):
    lines = ["seed %d" % (plan.get("seed", 1) or 1), "perm %d" % (1 if plan.get("perm") else 0)]
    if plan.get("stdout_fail"):
        lines.append("stdout_fail %d" % plan["stdout_fail"])
    if plan.get("stdout_sig"):
        lines.append("stdout_sig 1")
    if plan.get("mount"):
        lines.append("mount %s" % plan["mount"])
    for f in plan.get("faults", []):
        if f["act"] == "sig_stdout":
            lines.append("stdout_sig_at %d %d" % (f["nth"], f["signo"]))
            continue
        parts = ["fault"]
        if f.get("k"):
            parts.append("k=%d" % f["k"])
        else:
            parts.append("from=%d" % f.get("from", 1))
            if f.get("kinds"):
                parts.append("kinds=%s" % ",".join(f["kinds"]))
            if f.get("pre"):
                parts.append("pre=%s" % f["pre"])
            if f.get("nth"):
                parts.append("nth=%d" % f["nth"])
        parts.append("act=%s" % f["act"])
        if "errno" in f:
            parts.append("errno=%d" % (ERRNO[f["errno"]] if isinstance(f["errno"], str) else f["errno"]))
        if "frac" in f:
            parts.append("frac=%s" % f["frac"])
        if "signo" in f:
            parts.append("signo=%d" % f["signo"])
        lines.append(" ".join(parts))
    return "\n".join(lines) + "\n"


def _proc_cpu(pid):
    """CPU seconds (user + system, all threads) the process has consumed so far; None if it cannot be read."""
    try:
        with open("/proc/%d/stat" % pid) as f:
            rest = f.read().rsplit(")", 1)[1].split()
        return (int(rest[11]) + int(rest[12])) / os.sysconf("SC_CLK_TCK")
    except (OSError, IndexError, ValueError):
        return None


# --------------------------------------------------------------------------------------------
# one simulated run

class Op:
    __slots__ = ("k", "kind", "path", "flags", "req", "ret", "errno", "fired", "extra")

    def __init__(self, k, kind, path, flags, req, ret, errno, fired, extra=None):
        self.k, self.kind, self.path, self.flags, self.req, self.ret, self.errno, self.fired = \
            k, kind, path, flags, req, ret, errno, fired
        self.extra = extra

    def cls(self):
        return path_class(self.path)

    def is_mutation(self):
        """Does this operation modify the world (by the rules of C04)?  A call that failed (an unlink of a path that does
        not exist, a refused open) changed nothing; a call that the seam itself prevented is not counted either."""
        if self.ret < 0:
            return False
        if self.kind in MUTATING_KINDS:
            return True
        if self.kind == "OPEN_W":
            if self.flags & O_TRUNC:
                return True
            if (self.flags & O_CREAT) and self.req == 0:  # req column = existed before
                return True
        return False

    def short(self):
        return "%s %s %s%s" % (self.k, self.kind, norm_path(self.path), (" [" + self.fired + "]") if self.fired != "-" else "")


_UUID = re.compile(r"breadlog-[0-9a-f]{8}-[0-9a-f]{4}-[0-9a-f]{4}-[0-9a-f]{4}-[0-9a-f]{12}\.tmp")


def norm_path(p):
    return _UUID.sub("breadlog-<uuid>.tmp", p)


def path_class(p):
    """config | lock | scratch | source | srcdir | outside | other, from the normalised world-relative path."""
    if " -> " in p:
        p = p.split(" -> ")[0]
    base = os.path.basename(p)
    if p.startswith("tmp/") or p == "tmp":
        return "scratch"
    if p.startswith("outside/") or p == "outside":
        return "outside"
    if base.startswith("Breadlog.lock"):
        return "lock"
    if base.endswith(".yaml"):
        return "config"
    return "proj"


class RunResult:
    def __init__(self):
        self.ops = []        # numbered operations
        self.events = []     # every trace line (tuples)
        self.mode = None     # "exited" | "signaled" | "timeout"
        self.status = None   # exit status or signal number
        self.seam_kill = False
        self.stdout = ""
        self.stderr = ""
        self.sigactions = []  # (signo, handlerkind)
        self.signals = []     # (signo, k, before/after)
        self.contended = 0
        self.stdout_failed = False
        self.trace_ok = False
        self.root = None

    def ending(self):
        if self.mode == "exited":
            return "exit%d" % self.status if self.status in (0,) else "exit-nonzero"
        if self.mode == "signaled":
            return "seam-kill" if self.seam_kill else "died-sig%d" % self.status
        return "timeout"

    def norm_output(self):
        """stdout+stderr with the world root and scratch-file names normalised (for the determinism diff)."""
        t = self.stdout + "\x00" + self.stderr
        if self.root:
            t = t.replace(self.root, "@ROOT@")
        return norm_path(t)

    def trace_digest(self):
        h = hashlib.sha256()
        for ev in self.events:
            # CLOSE is issued by a runtime thread that the program's await chain does not order, and the descriptor
            # number an open returns depends on which closes have already happened: neither is part of the schedule.
            if ev[1] in ("INIT", "CLOSE"):
                continue
            rest = list(ev[3:])
            if ev[1] in ("OPEN_R", "OPEN_W") and not str(rest[2]).startswith("-"):
                rest[2] = "fd"
            h.update(("\t".join(str(x) for x in [ev[0], ev[1], norm_path(ev[2])] + rest) + "\n").encode("utf-8", "surrogateescape"))
        return h.hexdigest()

    def fired_counts(self):
        c = {}
        for op in self.ops:
            if op.fired != "-":
                for f in op.fired.split(","):
                    c[f] = c.get(f, 0) + 1
        return c


def parse_trace(path, res):
    try:
        with open(path, "r", errors="surrogateescape") as f:
            lines = f.read().split("\n")
    except OSError:
        return
    for ln in lines:
        if not ln:
            continue
        parts = ln.split("\t")
        if len(parts) < 8:
            continue
        k, kind, p = parts[0], parts[1], parts[2]
        if k == "-":
            res.events.append(("-", kind, p) + tuple(parts[3:8]))
            if kind == "INIT":
                res.trace_ok = True
            elif kind == "SIGACTION":
                res.sigactions.append((int(parts[3]), p))
            elif kind == "SIGNAL":
                res.signals.append((int(parts[3]), int(parts[4]), parts[7]))
            elif kind == "CONTENDED":
                res.contended += 1
            elif kind == "STDOUT_FAIL":
                res.stdout_failed = True
            continue
        extra = None
        if kind == "READDIR":
            extra = parts[3]
            flags = 0
        else:
            flags = int(parts[3], 16)
        op = Op(int(k), kind, p, flags, int(parts[4]), int(parts[5]), int(parts[6]), parts[7], extra)
        res.ops.append(op)
        res.events.append((op.k, kind, p) + tuple(parts[3:8]))
        if "kill_" in op.fired:
            res.seam_kill = True


def run_breadlog(root, check=False, plan=None, knobs=None, binary=None):
    """Run one simulated Breadlog process on the world at `root`. Returns RunResult."""
    knobs = knobs or {}
    plan = plan or {}
    binary = binary or BIN
    ctl = root + ".ctl"
    os.makedirs(ctl, exist_ok=True)
    plan_path = os.path.join(ctl, "plan")
    trace_path = os.path.join(ctl, "trace")
    with open(plan_path, "w") as f:
        f.write(plan_text(plan))
    if os.path.exists(trace_path):
        os.unlink(trace_path)
    proj = os.path.join(root, "proj")
    cfgname = knobs.get("config_name", "Breadlog.yaml")
    cwd_kind = knobs.get("cwd", "proj")
    if cwd_kind == "proj":
        cwd = proj
        cfg = cfgname if knobs.get("config_arg", "rel") == "rel" else os.path.join(proj, cfgname)
        if knobs.get("config_arg") == "dotrel":
            cfg = "./" + cfgname
    elif cwd_kind == "outside":
        cwd = os.path.join(root, "outside")
        cfg = os.path.join("..", "proj", cfgname) if knobs.get("config_arg", "rel") == "rel" else os.path.join(proj, cfgname)
    elif cwd_kind == "root":
        cwd = root
        cfg = os.path.join("proj", cfgname) if knobs.get("config_arg", "rel") == "rel" else os.path.join(proj, cfgname)
    else:  # "/" : always absolute
        cwd = "/"
        cfg = os.path.join(proj, cfgname)
    if knobs.get("config_override"):
        cfg = knobs["config_override"].replace("@ROOT@", root)   # explicit path (relative to the working directory chosen above)
    tmpdir = os.path.join(root, knobs.get("tmpdir", "tmp"))
    if knobs.get("tmpdir_make"):
        os.makedirs(tmpdir, exist_ok=True)    # (exec_run has already put it into the world; this serves drivers that materialise themselves)
    if knobs.get("tmpdir_rel"):
        tmpdir = os.path.relpath(tmpdir, cwd)     # a relative TMPDIR is resolved against the working directory
    if knobs.get("tmpdir_slash"):
        tmpdir += "/"
    env = {
        "PATH": "/usr/bin:/bin",
        "TMPDIR": tmpdir,
        "LD_PRELOAD": SHIM,
        "SIM_ROOT": root,
        "SIM_PLAN": plan_path,
        "SIM_TRACE": trace_path,
        "ASYNC_STD_THREAD_COUNT": str(knobs.get("threads", 2)),
    }
    if knobs.get("jitter_us"):
        env["SIM_JITTER_US"] = str(int(knobs["jitter_us"]))
    if knobs.get("dt_unknown"):
        env["SIM_DT_UNKNOWN"] = "1"
    if knobs.get("clock") is not None:
        env["SIM_CLOCK_BASE"] = str(int(knobs["clock"]))
    for k, v in (knobs.get("env") or {}).items():
        if k not in env:
            env[k] = v
    if os.environ.get("BLSIM_PROFILE_DIR"):
        env["LLVM_PROFILE_FILE"] = os.path.join(os.environ["BLSIM_PROFILE_DIR"], "bl-%p-%m.profraw")
    style = knobs.get("argv_style", "short")
    if style == "long":
        argv = [binary, "--config", cfg]
    elif style == "long_eq":
        argv = [binary, "--config=" + cfg]
    elif style == "check_first" and check:
        argv = [binary, "--check", "-c", cfg]
    elif style == "check_twice" and check:
        argv = [binary, "-c", cfg, "--check", "--check"]          # a wrapper that appends --check to flags that have it
    elif style == "check_eq" and check:
        argv = [binary, "-c", cfg, "--check=true"]
    elif style == "config_twice" and check:
        argv = [binary, "-c", cfg, "--check", "-c", cfg]
    elif style == "unknown_flag" and check:
        argv = [binary, "-c", cfg, "--check", "--fix"]
    else:
        argv = [binary, "-c", cfg]
    if check and "--check" not in argv:
        argv.append("--check")
    argv += knobs.get("extra_args", [])
    res = RunResult()
    res.root = root
    t0 = time.monotonic()
    pre = None
    if knobs.get("inherit_ignored") or knobs.get("nofile"):
        # started the way a background job of a non-interactive shell, nohup or a supervisor starts it: the stop signals are
        # inherited as "ignored"; "nofile" = a small RLIMIT_NOFILE (descriptors are a bounded resource: what leaks runs out)
        sigs = list(knobs.get("inherit_ignored") or [])
        nofile = knobs.get("nofile")

        def pre():
            for s in sigs:
                signal.signal(s, signal.SIG_IGN)
            if nofile:
                import resource
                resource.setrlimit(resource.RLIMIT_NOFILE, (nofile, nofile))
    try:
        p = subprocess.Popen(argv, cwd=cwd, env=env, stdin=subprocess.DEVNULL, stdout=subprocess.PIPE,
                             stderr=subprocess.PIPE, preexec_fn=pre)
    except OSError as e:
        raise HarnessError("cannot start breadlog: %s" % e)
    # Time limit.  A run is given RUN_TIMEOUT seconds; when they are over it is "hung" if it is not consuming CPU time
    # (blocked: deadlock, lost wake-up) or has consumed RUN_TIMEOUT seconds of CPU (endless loop).  A run that is still
    # computing and has not had that much CPU yet is merely being starved by a busy machine and is left running (hard cap
    # 9 x RUN_TIMEOUT of wall time).
    limit = knobs.get("timeout", RUN_TIMEOUT) * TIMEOUT_SCALE
    timed_out = False
    out = err = b""
    last_cpu = None
    first = True
    while True:
        try:
            out, err = p.communicate(timeout=limit if first else 3.0)
            break
        except subprocess.TimeoutExpired:
            first = False
            cpu = _proc_cpu(p.pid)
            if cpu is None or cpu >= limit or time.monotonic() - t0 > 9 * limit or (last_cpu is not None and cpu - last_cpu < 0.05):
                timed_out = True
                break
            last_cpu = cpu
    if timed_out:
        p.kill()
        out, err = p.communicate()
        res.mode, res.status = "timeout", None
    else:
        rc = p.returncode
        if rc >= 0:
            res.mode, res.status = "exited", rc
        else:
            res.mode, res.status = "signaled", -rc
    res.wall = time.monotonic() - t0
    res.stdout = out.decode("utf-8", "replace")
    res.stderr = err.decode("utf-8", "replace")
    parse_trace(trace_path, res)
    shutil.rmtree(ctl, ignore_errors=True)
    if not res.trace_ok:
        raise HarnessError("shim did not load (no INIT in trace); stderr=%r" % res.stderr[-500:])
    return res


# --------------------------------------------------------------------------------------------
# the insert-only relation

_TOK_PATTERNS = [
    re.compile(rb"\[ref: ([0-9]{1,10})\] "),
    re.compile(rb"ref = ([0-9]{1,10})(?:; |, )"),
]


def _token_at(after, j):
    for pat in _TOK_PATTERNS:
        m = pat.match(after, j)
        if m:
            yield m.end() - j, int(m.group(1))


def _common(a, i, b, j):
    """Length of the common prefix of a[i:] and b[j:] (bulk compare, C speed)."""
    n = min(len(a) - i, len(b) - j)
    if n <= 0:
        return 0
    if a[i:i + n] == b[j:j + n]:
        return n
    lo, hi = 0, n  # a[i:i+lo]==b[j:j+lo] holds; mismatch somewhere before hi
    while hi - lo > 1:
        mid = (lo + hi) // 2
        if a[i:i + mid] == b[j:j + mid]:
            lo = mid
        else:
            hi = mid
    return lo


def explain(before, after, max_nodes=20000):
    """If `after` is `before` with reference tokens inserted, return [(offset_in_before, token_bytes, N)];
    otherwise None.  Bounded backtracking resolves tokens that share a prefix with the following text."""
    if before == after:
        return []
    if len(after) < len(before):
        return None
    nodes = [0]
    # iterative DFS over (i, j, insertions)
    stack = [(0, 0, ())]
    while stack:
        i, j, ins = stack.pop()
        nodes[0] += 1
        if nodes[0] > max_nodes:
            return None
        c = _common(before, i, after, j)
        i2, j2 = i + c, j + c
        if i2 == len(before) and j2 == len(after):
            return list(ins)
        # mismatch (or before exhausted) at (i2, j2): a token must start at some j2-d, d in 0..24, d <= c
        cands = []
        for d in range(0, min(c, 24) + 1):
            jj = j2 - d
            ii = i2 - d
            for ln, n in _token_at(after, jj):
                cands.append((ii, jj + ln, ins + ((ii, after[jj:jj + ln], n),)))
        # push in reverse so that the smallest d (latest token start) is tried first
        for cnd in reversed(cands):
            if len(after) - cnd[1] >= len(before) - cnd[0]:
                stack.append(cnd)
    return None


def apply_insertions(before, ins):
    out = []
    pos = 0
    for off, tok, _n in ins:
        out.append(before[pos:off])
        out.append(tok)
        pos = off
    out.append(before[pos:])
    return b"".join(out)


# --------------------------------------------------------------------------------------------
# lock file

_LOCK_RE = re.compile(rb"^next_reference_id: (\d+)\s*$", re.M)


_LOCK_OTHER_KEY = re.compile(rb"^[a-z_][a-z0-9_]*: ?[A-Za-z0-9_.\"'-]{0,64}\s*$")


def read_lock(data):
    """Parse a lock file's bytes: returns int or None (absent/corrupt)."""
    if data is None:
        return None
    ms = _LOCK_RE.findall(data)
    if len(ms) != 1:
        return None
    rest = _LOCK_RE.sub(b"", data)
    for ln in rest.split(b"\n"):
        s = ln.strip()
        if s and not s.startswith(b"#") and s != b"---" and not _LOCK_OTHER_KEY.match(ln):
            # (further top-level "key: scalar" entries are tolerated: a lock format that grows a field is still a lock)
            return None
    v = int(ms[0])
    return v if v <= 0xFFFFFFFF else None


def lock_text(n):
    return ("# AUTO-GENERATED FILE - DON'T EDIT\n# If you would like to recalculate the next reference from your code, "
            "delete this file and\n# run Breadlog.\n\nnext_reference_id: %d\n" % n).encode()


# --------------------------------------------------------------------------------------------
# report parsing (documented stdout lines)

RE_MISSING = re.compile(r"Missing reference in file (.*), line (\d+), column (\d+)\s*$")
RE_TOTAL_ALL = re.compile(r"Total missing references \(all files\): (\d+)")
RE_INSERTED = re.compile(r"Num\. inserted reference\(s\): (\d+)")
RE_PANIC = re.compile(r"panicked at")


def parse_report(text):
    missing, total, inserted = [], None, None
    for ln in text.split("\n"):
        m = RE_MISSING.search(ln)
        if m:
            missing.append((m.group(1), int(m.group(2)), int(m.group(3))))
            continue
        m = RE_TOTAL_ALL.search(ln)
        if m:
            total = int(m.group(1))
        m = RE_INSERTED.search(ln)
        if m:
            inserted = int(m.group(1))
    return {"missing": missing, "total": total, "inserted": inserted}
