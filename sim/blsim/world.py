"""World model and seeded generators: source files as segment lists (padding / planted statements),
configuration, developer edits, and synchronisation of the model with what a run left on disk.

A planted statement carries a unique marker word in its message, so the harness knows which
statement is which without a parser of its own.
"""
import os
import re

from . import core

DEFAULT_MACROS = [("log", "info"), ("log", "warn"), ("log", "error")]

# ---------------------------------------------------------------------------------------------
# configuration


def render_cfg(cfg):
    b = _render_cfg(cfg)
    style = cfg.get("yaml_style")
    if not style:
        return b
    t = b.decode()
    if style == "quoted":
        t = t.replace("source_dir: %s" % cfg.get("source_dir", "./src"), "source_dir: \"%s\"" % cfg.get("source_dir", "./src"))
        t = t.replace("module: ", "module: '").replace("\n      name:", "'\n      name:")
    elif style == "comments":
        t = t.replace("rust:", "# the Rust section\nrust:   # trailing comment").replace("---\n", "---\n# Breadlog configuration\n\n")
    elif style == "reordered":
        lines = t.split("\n")
        i = [k for k, l in enumerate(lines) if l.startswith("source_dir:")][0]
        sd = lines.pop(i)
        lines.insert(len(lines) - 1, sd)
        t = "\n".join(lines)
    elif style == "flow":
        macs = cfg.get("macros", DEFAULT_MACROS)
        flow = "  log_macros: [" + ", ".join("{module: %s, name: %s}" % (m, n) for m, n in macs) + "]"
        lines = t.split("\n")
        out, skip = [], False
        for l in lines:
            if l.startswith("  log_macros:"):
                out.append(flow)
                skip = True
                continue
            if skip and (l.startswith("    - module:") or l.startswith("      name:")):
                continue
            skip = False
            out.append(l)
        t = "\n".join(out)
    elif style == "no_doc_start":
        t = t.replace("---\n", "", 1)
    elif style == "crlf":
        t = t.replace("\n", "\r\n")
    return t.encode()


def _render_cfg(cfg):
    out = ["---"]
    for k in cfg.get("extra_top", []):      # keys Breadlog does not know: it must ignore them
        out.append(k)
    out.append("source_dir: %s" % cfg.get("source_dir", "./src"))
    if cfg.get("use_cache") is not None:
        out.append("use_cache: %s" % ("true" if cfg["use_cache"] else "false"))
    out.append("rust:")
    if cfg.get("structured") is not None:
        out.append("  structured: %s" % ("true" if cfg["structured"] else "false"))
    out.append("  log_macros:")
    for mod, name in cfg.get("macros", DEFAULT_MACROS):
        out.append("    - module: %s" % mod)
        out.append("      name: %s" % name)
    for k in cfg.get("extra_rust", []):
        out.append("  " + k)
    if cfg.get("extensions") is not None:
        if cfg["extensions"]:
            out.append("  extensions:")
            for e in cfg["extensions"]:
                out.append("    - %s" % e)
        else:
            out.append("  extensions: []")
    return ("\n".join(out) + "\n").encode()


EXTRA_KEYS = ["check: false", "check: true", "check_mode: false", "dry_run: false", "dry_run: true", "edit: true", "write: false",
              "readonly: true", "mode: edit", "mode: check", "verbose: true", "version: 2", "use_lock: false", "cache: false",
              "exclude: [target]", "follow_symlinks: true", "tmp_dir: /nonexistent", "language: rust"]


def add_extra_keys(rng, cfg, p=0.3):
    if rng.random() < p:
        cfg["extra_top"] = rng.sample(EXTRA_KEYS, rng.randrange(1, 4))
    if rng.random() < p / 2:
        cfg["extra_rust"] = rng.sample(["check: false", "structured_logging: true", "macros: []", "edition: 2021"], rng.randrange(1, 3))
    return cfg


def cfg_structured(cfg):
    return bool(cfg.get("structured"))


def cfg_uses_lock(cfg):
    return cfg.get("use_cache") is not False


# ---------------------------------------------------------------------------------------------
# statements

WORDS = ["starting", "worker", "done", "request", "failed to open", "retry", "cache miss", "shutting down",
         "connected", "value is", "état", "naïve café", "日本語", "ok", "timeout after"]

# shapes: name -> (structured_ok, unstructured_ok)
UNSTRUCT_SHAPES = ["bare", "qual", "fmt", "target", "kv", "multi", "qual_fmt_multi", "esc", "kv_short", "kv_mixed", "target_kv",
                   "bang_space", "bang_nl", "bang_comment"]
STRUCT_SHAPES = ["bare", "qual", "fmt", "kv", "kv2", "multi", "esc", "kv_short", "kv_short2", "kv_mixed", "kv_mixed2", "target",
                 "target_kv", "target_multi", "bang_space", "bang_nl", "bang_comment"]


def render_stmt(shape, marker, macro, rid, structured, words, indent="    ", ref_last=False, module="log", rid_text=None,
                lead_ws=""):
    """Render one log statement (with trailing newline). rid: planted ID or None (rid_text: its spelling, e.g. '0042')."""
    msg = "%s%s %s" % (lead_ws, marker, words)
    name = macro
    if shape in ("qual", "qual_fmt_multi"):
        name = module + "::" + macro
    ridt = rid_text if rid_text is not None else (str(rid) if rid is not None else None)
    args_after = ""
    if shape in ("fmt", "qual_fmt_multi"):
        msg += " {} {:?}"
        args_after = ", count, state"
    if shape == "esc":
        msg += " \\\"quoted\\\" \\\\ end"
    pre = ""
    kvs = ""
    if shape in ("target", "target_kv", "target_multi"):
        pre = "target: \"app_events\", "
    if shape == "target_multi":
        pre = "target: \"app_events\",\n%s    " % indent
    if shape in ("kv", "target_kv"):
        kvs = "attempt = 3"
    if shape == "kv2":
        kvs = "user = \"a;b,c\", attempt:? = 3"
    if shape == "kv_short":
        kvs = "state"
    if shape == "kv_short2":
        kvs = "state, count:?"
    if shape == "kv_mixed":
        kvs = "state, attempt = 3"
    if shape == "kv_mixed2":
        kvs = "attempt = 3, state:%"
    if structured:
        if rid is not None:
            if ref_last and kvs:
                kvs = "%s, ref = %s" % (kvs, ridt)   # an existing ref pair counts anywhere among the key-values
            else:
                kvs = ("ref = %s, %s" % (ridt, kvs)) if kvs else ("ref = %s" % ridt)
    else:
        if rid is not None:
            if lead_ws.lstrip().startswith("/*") and ref_last:
                # where the tool itself would have put it: behind the leading comment
                msg = "%s[ref: %s] %s" % (lead_ws, ridt, msg[len(lead_ws):])
            else:
                msg = "[ref: %s] %s" % (ridt, msg)
    kvpart = (kvs + "; ") if kvs else ""
    # something between the bang and the opening bracket (rustc and the grammar both accept it)
    bang = {"bang_space": "! ", "bang_nl": "!\n" + indent + "    ", "bang_comment": "! /* lvl */ "}.get(shape, "!")
    if shape in ("multi", "qual_fmt_multi", "target_multi"):
        body = "%s%s%s(\n%s    %s%s\"%s\"%s\n%s);\n" % (indent, name, bang, indent, pre, kvpart, msg, args_after, indent)
    else:
        body = "%s%s%s(%s%s\"%s\"%s);\n" % (indent, name, bang, pre, kvpart, msg, args_after)
    return body


# (a planted reference starts the literal; one the tool inserted may follow white space that opens the message - the
# grammar skips white space after the opening quote)
_ID_UNSTRUCT = re.compile(r'"(?:[ \t]|/\*.*?\*/)*\[ref: (\d{1,10})\] ')
_ID_STRUCT = re.compile(r'[(\s,]ref = (\d{1,10})[;,]')


def stmt_id(text):
    """ID carried by a planted statement's current text (either style), or None."""
    m = _ID_UNSTRUCT.search(text)
    if m:
        return int(m.group(1))
    m = _ID_STRUCT.search(text)
    if m:
        return int(m.group(1))
    return None


PAD_LINE = "fn pad_%05d(v: u32) -> u32 { let w = v.wrapping_mul(%d); w ^ 0x5bd1 }\n"


# Text that must be inert for the tool.  NOT in this list on purpose: a string literal containing "/*" - the grammar skips
# comments between any two tokens, so it treats that as the start of a block comment and swallows everything up to the
# next "*/" (an observation in C11's territory, DESIGN 12.7); planted statements must stay recognisable.
DECOYS = [
    '    // info!("commented out {}", 1);\n',
    '    /* warn!("in a block comment"); */\n',
    '    /// error!("in a doc comment");\n',
    '    let _s = "info!(\\"inside a string\\")";\n',
    '    debug!("unconfigured macro");\n',
    '    println!("not a log macro {}", count);\n',
    '    my_info!("configured name as a suffix");\n',
    '    info_span!("configured name as a prefix");\n',
    '    other::info!("different module path");\n',
    '    info!(state);\n',
    '    warn!(concat!("no ", "literal"));\n',
    '    error!(r"raw string literal");\n',
    '    let _t = format!("{} // not a comment", count);\n',
    '    info ! ("spaced bang");\n',
    # comments that merely begin like a directive (a directive is the whole comment, nothing more)
    '    // breadlog:ignore was dropped from the next line on purpose\n',
    '    // breadlog:no-kvp-here-please\n',
    '    /* breadlog:ignored */\n',
]

PAD_UNI = "既定値を返す日本語のコメントéßжΩ𝔘😀ñ"


def make_pad(rng, nbytes, unicode_p=0.0):
    """Inert code of roughly nbytes bytes; with unicode_p > 0 some lines are comments made of 2-4 byte characters
    (so that multi-byte characters sit at every offset, in particular across buffer-size boundaries)."""
    if nbytes <= 0:
        return "\n"
    out = []
    size = 0
    i = rng.randrange(1000)
    while size < nbytes:
        if unicode_p and rng.random() < unicode_p:
            ln = "// " + "".join(rng.choice(PAD_UNI) for _ in range(rng.randrange(5, 40))) + "\n"
            size += len(ln.encode("utf-8"))
        else:
            ln = PAD_LINE % (i, rng.randrange(1, 99999))
            size += len(ln)
        out.append(ln)
        i += 1
    return "".join(out)


SIZE_CLASSES = {"tiny": 0, "k8": 9000, "k64": 70000, "k160": 160000, "k256": 270000, "k600": 600000, "m1": 1200000, "m2": 2000000, "m17": 17500000}


class Gen:
    """Seeded generator with a private marker counter (markers are unique per world)."""

    def __init__(self, rng, macros=None):
        self.rng = rng
        self.n = 0
        self.macros = macros or DEFAULT_MACROS

    def marker(self):
        self.n += 1
        return "mk%03dq" % self.n

    def stmt(self, structured, rid=None, shapes=None, macros=None):
        rng = self.rng
        shape = rng.choice(shapes or (STRUCT_SHAPES if structured else UNSTRUCT_SHAPES))
        module, macro = rng.choice(self.macros)
        mk = self.marker()
        words = rng.choice(WORDS)
        rid_text = None
        if rid is not None and rid < 100000 and rng.random() < 0.06:
            rid_text = "%06d" % rid   # leading zeros: still the same number
        # message starting with white space or with a block comment (the grammar skips both after the opening quote)
        lead_ws = rng.choice(["  ", " - ", "\t", "\\n  ", "/* q:users */ ", "/**/", " /* a */ /* b */ "]) if rng.random() < 0.1 else ""
        text = render_stmt(shape, mk, macro, rid, structured, words, ref_last=rng.random() < 0.3, module=module, rid_text=rid_text,
                           lead_ws=lead_ws)
        return ["stmt", mk, text]

    def source_file(self, structured, nstmts, size_class, ids, shapes=None, crlf=False, unicode_p=0.0, decoy_p=0.0, layout_p=0.0):
        """ids: list (len nstmts) of planted IDs or None."""
        rng = self.rng
        total = SIZE_CLASSES[size_class]
        segs = [["pad", "// generated\nuse log::{info, warn, error};\n\n"]]
        for i in range(nstmts):
            head = make_pad(rng, total // (nstmts + 1), unicode_p) + "fn f_%d(count: u32, state: &str) {\n" % i
            if structured and rng.random() < 0.25:
                # an "unusable" reference: the ref key holds something that is not an integer literal; the statement is
                # neither missing a reference nor ever modified, so for the model it is inert text
                head += "    %s!(ref = %s; \"unusable reference decoy\");\n" % (
                    rng.choice(["info", "warn", "log::error"]), rng.choice(["request_id", "\"abc\"", "id.0", "-1"]))
            if decoy_p and rng.random() < decoy_p:
                head += "".join(rng.choice(DECOYS) for _ in range(rng.randrange(1, 4)))
            if layout_p and rng.random() < layout_p:
                # a very long line just before the statement
                # (short words: one unbroken run of identifier characters would be the quadratic shape of DESIGN 12.7)
                head += "    let _long = \"" + ("lorem ipsum, dolor (sit) amet; " * rng.choice([10, 160, 650])) + "\";\n"
            segs.append(["pad", head])
            st = self.stmt(structured, ids[i], shapes)
            segs.append(st)
            if layout_p and rng.random() < layout_p / 2 and st[2].startswith("    "):
                # the statement sits far out on a very long line (generated tables, minified code): columns beyond 2^16
                st[2] = "    let _t = [" + "0, " * rng.choice([7000, 22000, 30000]) + "0]; " + st[2][4:]
            if layout_p and rng.random() < layout_p and "\n" not in st[2].rstrip("\n"):
                # a second statement on the same line (it has no ID yet)
                st[2] = st[2].rstrip("\n") + " "
                st2 = self.stmt(structured, None, ["bare", "fmt", "kv"])
                st2[2] = st2[2].lstrip(" ")
                segs.append(st2)
            segs.append(["pad", "}\n"])
        if structured and nstmts == 0 and rng.random() < 0.3:
            # a file whose only log statements carry an unusable reference (nothing to count, nothing to edit)
            segs.append(["pad", "fn only_unusable(request_id: u32) {\n    info!(ref = request_id; \"unusable only\");\n"
                                "    warn!(ref = \"abc\"; \"unusable too\");\n}\n"])
        segs.append(["pad", make_pad(rng, total // (nstmts + 1), unicode_p)])
        if layout_p and rng.random() < layout_p / 2:
            # the file starts with a log statement at byte 0
            st0 = self.stmt(structured, None, ["bare", "qual", "fmt"])
            st0[2] = st0[2].lstrip(" ")
            segs.insert(0, st0)
        if layout_p and rng.random() < layout_p / 2:
            # ... or ends with one, without a final newline
            stz = self.stmt(structured, None, ["bare", "qual", "kv"])
            stz[2] = stz[2].rstrip("\n")
            segs.append(stz)
        if crlf:
            for s in segs:
                s[-1] = s[-1].replace("\n", "\r\n")
        elif getattr(self, "cr_p", 0) and rng.random() < self.cr_p:
            # a stray carriage return (classic Mac line end, a botched merge) in front of the statements: not a line break
            # for anybody who counts lines by LF
            pads = [s for s in segs if s[0] == "pad" and "\n" in s[-1]]
            if pads:
                s = pads[0]
                i = s[-1].index("\n")
                s[-1] = s[-1][:i] + " // cr\r" + rng.choice(["", "    "]) + "const _CR: u8 = 13;" + s[-1][i:]
        return segs


def segs_bytes(segs):
    return "".join(s[-1] for s in segs).encode("utf-8")


def file_stmts(segs):
    return [s for s in segs if s[0] == "stmt"]


# ---------------------------------------------------------------------------------------------
# world model:  {"cfg": {...}, "files": {relpath: segs}, "extra": {relpath: entry}, "cfg_name": "Breadlog.yaml"}


def wm_world(wm):
    """Render the model to a materialisable world dict."""
    w = _wm_world(wm)
    for p, t in (wm.get("mtimes") or {}).items():
        if p in w and w[p]["t"] == "f":
            w[p] = dict(w[p], mtime=t)
    return w


def _wm_world(wm):
    w = {}
    for p, e in wm.get("extra", {}).items():
        w[p] = e
    cfg_entry = {"t": "f", "mode": 0o644, "data": wm["cfg_raw"] if wm.get("cfg_raw") is not None else render_cfg(wm["cfg"]), "subst": True}
    if wm.get("cfg_link") and "/" not in wm.get("cfg_name", "Breadlog.yaml"):
        # the configuration file is a symbolic link to a file kept elsewhere (shared between projects): its location - for
        # source_dir and the lock - is still the directory the link is in
        w["outside/common/shared-breadlog.yaml"] = cfg_entry
        w["proj/" + wm.get("cfg_name", "Breadlog.yaml")] = {"t": "l", "target": "../outside/common/shared-breadlog.yaml"}
    else:
        w["proj/" + wm.get("cfg_name", "Breadlog.yaml")] = cfg_entry
    for p, segs in wm["files"].items():
        w[p] = {"t": "f", "mode": wm.get("modes", {}).get(p, 0o644), "data": segs_bytes(segs)}
    if wm.get("lock") is not None:
        w["proj/Breadlog.lock"] = {"t": "f", "mode": 0o644, "data": wm["lock"]}
    return w


def wm_to_json(wm):
    out = {k: v for k, v in wm.items() if k not in ("extra", "lock", "cfg_raw")}
    out["extra"] = core.world_to_json(wm.get("extra", {}))
    if wm.get("lock") is not None:
        out["lock"] = core.enc_bytes(wm["lock"])
    if wm.get("cfg_raw") is not None:
        out["cfg_raw"] = core.enc_bytes(wm["cfg_raw"])
    return out


def wm_from_json(js):
    wm = {k: v for k, v in js.items() if k not in ("extra", "lock", "cfg_raw")}
    wm["extra"] = core.world_from_json(js.get("extra", {}))
    wm["lock"] = core.dec_bytes(js["lock"]) if js.get("lock") is not None else None
    if js.get("cfg_raw") is not None:
        wm["cfg_raw"] = core.dec_bytes(js["cfg_raw"])
    if "modes" in wm:
        wm["modes"] = {k: int(v) for k, v in wm["modes"].items()}
    return wm


def wm_ids(wm):
    """{marker: id} for every planted statement currently carrying an ID."""
    out = {}
    for p, segs in wm["files"].items():
        for s in file_stmts(segs):
            i = stmt_id(s[2])
            if i is not None:
                out[s[1]] = i
    return out


def gen_ids(rng, n, p_have=0.4, lo=1, hi=60, special=None):
    """n entries: None (missing) or distinct planted IDs."""
    pool = set()
    out = []
    for _ in range(n):
        if rng.random() < p_have:
            for _try in range(20):
                v = rng.randrange(lo, hi)
                if special and rng.random() < 0.3:
                    v = rng.choice(special)
                if v not in pool:
                    pool.add(v)
                    out.append(v)
                    break
            else:
                out.append(None)
        else:
            out.append(None)
    return out


def gen_world_model(rng, structured=None, use_cache="rand", nfiles=None, sizes=None, p_have=0.4, id_hi=60,
                    lock="rand", shapes=None, max_stmts=4, min_missing=1, special_ids=None, crlf_p=0.0, unicode_p=None,
                    decoy_p=0.25, custom_macros_p=0.15, layout_p=0.1, heads_p=0.12, many=None, extra_keys_p=0.3, modes_p=0.15, mtimes_p=0.3, many_files=None, many_exact=False, yaml_style_p=0.3, high_ids_p=0.08, links_p=0.12, hardlinks_p=0.08, big_p=0.0, cr_p=0.04, siblings_p=0.1, cfg_link_p=0.04):
    """A project with generated in-scope source files under proj/src (nested sometimes)."""
    if unicode_p is None:
        unicode_p = rng.choice([0.0, 0.0, 0.0, 0.3, 0.9])
    macros = None
    if rng.random() < custom_macros_p:
        macros = rng.choice([[("log", "info"), ("log", "warn")], [("mylog", "note"), ("mylog", "alert"), ("log", "error")],
                             [("tracing", "event")], [("log", "info"), ("log", "infoo"), ("log", "in")],
                             [("crate::util::log", "info"), ("my::log", "warn")], [("log", "info"), ("other", "info")],
                             [("log", "r#try"), ("log", "info")][1:], [("log", "_trace"), ("log", "info2")]])
    g = Gen(rng, macros)
    g.cr_p = cr_p
    if structured is None:
        structured = rng.random() < 0.4
    cfg = {"source_dir": rng.choice(["./src", "src"]), "structured": structured if (structured or rng.random() < 0.5) else None}
    if macros:
        cfg["macros"] = [list(m) for m in macros]
    add_extra_keys(rng, cfg, extra_keys_p)
    if rng.random() < yaml_style_p:
        cfg["yaml_style"] = rng.choice(["quoted", "comments", "reordered", "flow", "no_doc_start", "crlf"])
    if use_cache == "rand":
        cfg["use_cache"] = rng.choice([True, None, None, False])
    else:
        cfg["use_cache"] = use_cache
    nfiles = nfiles if nfiles is not None else rng.randrange(1, 5)
    id_base = 0
    if high_ids_p and rng.random() < high_ids_p:
        id_base = rng.choice([999999990, 1000000000, 2147483640, 3999999000])   # ten-digit IDs, around 2^31
    names = ["main.rs", "lib.rs", "net/conn.rs", "net/tls/hs.rs", "util.rs", "db/store.rs", "z_last.rs", "a_first.rs"]
    if rng.random() < 0.25:
        # generated-code style names with several dots, a dot-file, a name with spaces
        names += ["proto/acme.telemetry.v1.rs", "schema.generated.rs", "api.pb.rs", ".hidden_mod.rs", "two words.rs", "v1.2/mod.rs"]
    rng.shuffle(names)
    files = {}
    used_ids = set()
    missing = 0
    for fi in range(nfiles):
        ns = rng.randrange(0, max_stmts + 1)
        ids = []
        for _ in range(ns):
            if rng.random() < p_have:
                v = None
                for _try in range(20):
                    c = id_base + rng.randrange(1, id_hi)
                    if special_ids and rng.random() < 0.3:
                        c = rng.choice(special_ids)
                    if c not in used_ids:
                        v = c
                        break
                if v is not None:
                    used_ids.add(v)
                ids.append(v)
            else:
                ids.append(None)
        missing += sum(1 for i in ids if i is None)
        sc = rng.choice(sizes or ["tiny", "tiny", "tiny", "k8", "k64"])
        if big_p and rng.random() < big_p:
            sc = rng.choice(["k600", "m1", "m2"])      # generated tables, bindings: files of one or two megabytes exist
        files["proj/src/" + names[fi]] = g.source_file(structured, ns, sc, ids, shapes, crlf=rng.random() < crlf_p,
                                                       unicode_p=unicode_p, decoy_p=decoy_p, layout_p=layout_p)
    if many_files:
        # a great many small files (counts around powers of two)
        mod0, mac0 = (macros or DEFAULT_MACROS)[0]
        nmany = many_files
        if many_exact:
            # exactly many_files files need an update in total (the others generated above included): what a narrow
            # per-run counter of updated / failed files would wrap on
            need = sum(1 for segs in files.values() if any(s[0] == "stmt" and stmt_id(s[2]) is None for s in segs))
            nmany = max(1, many_files - need)
        for j in range(nmany):
            g.n += 1
            mk = "mk%05dq" % g.n
            has = (not many_exact) and rng.random() < 0.5
            txt = render_stmt("bare", mk, mac0, (1000 + j) if has else None, structured, "small", module=mod0)
            files["proj/src/many/d%02d/f%04d.rs" % (j % 17, j)] = [["pad", "fn s() {\n"], ["stmt", mk, txt], ["pad", "}\n"]]
            missing += 0 if has else 1
    if many:
        # one file with a great many statements on top (counts around powers of two)
        mod0, mac0 = (macros or DEFAULT_MACROS)[0]
        lines = ["fn many(count: u32, state: &str) {\n"]
        segs = [["pad", lines[0]]]
        for _j in range(many):
            g.n += 1
            mk = "mk%05dq" % g.n
            segs.append(["stmt", mk, "    %s!(%s\"%s bulk\");\n" % (mac0, "" , mk)])
        segs.append(["pad", "}\n"])
        files["proj/src/bulk.rs"] = segs
        missing += many
    for p in sorted(files):
        if heads_p and rng.random() < heads_p:
            first = files[p][0]
            r = rng.random()
            if first[0] != "pad":
                continue
            if r < 0.5:
                first[-1] = "\ufeff" + first[-1]                       # byte-order mark
            elif r < 0.75:
                first[-1] = "#!/usr/bin/env run-cargo-script\n" + first[-1]
            else:
                first[-1] = "\n\n\r\n" + first[-1]
    if missing < min_missing:
        # make sure there is work to do
        p = sorted(files)[0]
        segs = files[p]
        for _ in range(min_missing - missing):
            segs.insert(len(segs) - 1, ["pad", "fn extra_%d() {\n" % g.n])
            segs.insert(len(segs) - 1, g.stmt(structured, None, shapes))
            segs.insert(len(segs) - 1, ["pad", "}\n"])
    wm = {"cfg": cfg, "files": files, "extra": {}, "lock": None, "nmark": g.n}
    if links_p and rng.random() < links_p and files:
        # symbolic links inside the source tree, to a file and to a directory of the tree (never followed, never edited)
        fl = sorted(files)
        tgt = fl[rng.randrange(len(fl))]
        wm["extra"]["proj/src/alias_%d.rs" % rng.randrange(100)] = {"t": "l", "target": tgt[len("proj/src/"):]}
        sub_dirs = sorted({p.rsplit("/", 1)[0] for p in fl if p.count("/") >= 3})
        if sub_dirs:
            d = sub_dirs[rng.randrange(len(sub_dirs))]
            wm["extra"]["proj/src/compat_%d" % rng.randrange(100)] = {"t": "l", "target": d[len("proj/src/"):]}
        wm["extra"]["proj/src/dangling.rs"] = {"t": "l", "target": "does/not/exist.rs"}
    if files and rng.random() < siblings_p:
        # what editors, merges and crashed tools leave next to a source file - user files all the same
        fl = sorted(files)
        tgt = fl[rng.randrange(len(fl))]
        for suf in rng.sample([".tmp", ".bak", "~", ".orig", ".new", ".swp"], 2):
            wm["extra"][tgt + suf] = {"t": "f", "mode": 0o644, "data": b"// not a source file any more\nfn old() { info!(\"sibling " + suf.encode() + b"\"); }\n"}
        wm["extra"][tgt[:-3] + ".tmp"] = {"t": "f", "mode": 0o600, "data": b"scratch of somebody else\n"}
    if rng.random() < cfg_link_p:
        wm["cfg_link"] = True
    if files and rng.random() < hardlinks_p:
        # a second (hard-linked) name of a source file under an out-of-scope name: a backup made with cp -al / rsync
        # --link-dest, or an editor's .orig.  Replacing the source file by rename leaves that name alone; writing through
        # the shared inode would not.
        fl = sorted(files)
        tgt = fl[rng.randrange(len(fl))]
        wm["extra"][rng.choice([tgt + ".orig", "outside/snapshot/" + tgt.rsplit("/", 1)[1], "proj/backup_" + tgt.rsplit("/", 1)[1] + "~"])] = \
            {"t": "h", "to": tgt}
    if rng.random() < mtimes_p:
        # file times all over the place: years old, in the future, older/newer than the lock - nothing may depend on them
        base = 1790000000
        mt = {}
        for p in sorted(files):
            mt[p] = base + rng.choice([-400 * 86400, -86400, -1, 0, 1, 3600, 400 * 86400])
        mt["proj/Breadlog.lock"] = base + rng.choice([-86400, 0, 86400])
        mt["proj/Breadlog.yaml"] = base + rng.choice([-86400, 0, 86400 * 30])
        wm["mtimes"] = mt
    if modes_p:
        # read-only, private or executable source files (Breadlog replaces files, so it does not keep the mode: an
        # observation outside the properties; the classifiers compare bytes only)
        wm["modes"] = {p: rng.choice([0o444, 0o400, 0o600, 0o755, 0o664]) for p in sorted(files) if rng.random() < modes_p}
    if cfg_uses_lock(cfg):
        if lock == "rand":
            lock = rng.choice(["absent", "ahead", "ahead"])
        if lock == "ahead":
            top = max(used_ids) if used_ids else 0
            if top + 40 <= 0xFFFFFFFF:
                wm["lock"] = core.lock_text(top + rng.randrange(1, 40))
    return wm


# ---------------------------------------------------------------------------------------------
# synchronising the model with the disk after a run


def sync_file(segs, after_bytes):
    """Distribute the tokens inserted by a run into the segments.
    Returns (new_segs, [(marker|None, N, token_str)]) or None if after is not before+tokens."""
    before = segs_bytes(segs)
    ins = core.explain(before, after_bytes)
    if ins is None:
        return None
    # segment byte ranges in `before`
    bounds = []
    pos = 0
    for s in segs:
        b = s[-1].encode("utf-8")
        bounds.append((pos, pos + len(b)))
        pos += len(b)
    new = [list(s) for s in segs]
    report = []
    # apply from the last insertion backwards so earlier offsets stay valid
    for off, tok, n in reversed(ins):
        idx = None
        for i, (a, b) in enumerate(bounds):
            if a <= off < b:
                idx = i
                break
        if idx is None:
            idx = len(segs) - 1
        a = bounds[idx][0]
        raw = new[idx][-1].encode("utf-8")
        local = off - a
        raw = raw[:local] + tok + raw[local:]
        try:
            new[idx][-1] = raw.decode("utf-8")
        except UnicodeDecodeError:
            return None
        report.append((new[idx][1] if new[idx][0] == "stmt" else None, n, tok.decode("ascii")))
    report.reverse()
    return new, report


def sync_model(wm, disk):
    """Update wm from the on-disk world. Returns {"inserted": [(path, marker, N, token)], "torn": [paths],
    "missing": [paths]}."""
    info = {"inserted": [], "torn": [], "missing": []}
    for p in sorted(wm["files"]):
        e = disk.get(p)
        if e is None or e["t"] != "f":
            info["missing"].append(p)
            continue
        r = sync_file(wm["files"][p], e["data"])
        if r is None:
            info["torn"].append(p)
            continue
        wm["files"][p] = r[0]
        for mk, n, tok in r[1]:
            info["inserted"].append((p, mk, n, tok))
    lk = disk.get("proj/Breadlog.lock")
    wm["lock"] = lk["data"] if lk is not None and lk["t"] == "f" else None
    return info


# ---------------------------------------------------------------------------------------------
# developer edits (semantic, evaluated against the current model; they never touch the lock and never write IDs)


def dev_apply(wm, edit, root=None):
    """Apply a developer edit to the model and (if root given) to the disk. Returns a description or None if
    the edit does not apply to the current state."""
    kind = edit["kind"]
    structured = cfg_structured(wm["cfg"])
    files = wm["files"]
    touched = []
    desc = None
    if kind == "del_top":
        # delete the statement carrying the highest ID
        best = None
        for p, segs in files.items():
            for i, s in enumerate(segs):
                if s[0] == "stmt":
                    v = stmt_id(s[2])
                    if v is not None and (best is None or v > best[0]):
                        best = (v, p, i)
        if best is None:
            return None
        v, p, i = best
        del files[p][i]
        touched.append(p)
        desc = "deleted statement with top id %d in %s" % (v, p)
    elif kind == "del_stmt":
        cands = [(p, i) for p in sorted(files) for i, s in enumerate(files[p]) if s[0] == "stmt"]
        if not cands:
            return None
        p, i = cands[edit["pick"] % len(cands)]
        desc = "deleted statement %s in %s" % (files[p][i][1], p)
        del files[p][i]
        touched.append(p)
    elif kind == "add_stmt":
        ps = sorted(files)
        if not ps:
            return None
        p = ps[edit["pick"] % len(ps)]
        wm["nmark"] = wm.get("nmark", 0) + 1
        mk = "mk%03dq" % wm["nmark"]
        mod0, mac0 = (wm["cfg"].get("macros") or DEFAULT_MACROS)[0]
        text = render_stmt(edit.get("shape", "bare"), mk, mac0, None, structured, edit.get("words", "added"), module=mod0)
        segs = files[p]
        segs.append(["pad", "fn added_%d(count: u32, state: &str) {\n" % wm["nmark"]])
        segs.append(["stmt", mk, text])
        segs.append(["pad", "}\n"])
        touched.append(p)
        desc = "added statement %s to %s" % (mk, p)
    elif kind == "add_file":
        wm["nmark"] = wm.get("nmark", 0) + 1
        mk = "mk%03dq" % wm["nmark"]
        p = "proj/src/new_%d.rs" % wm["nmark"]
        mod0, mac0 = (wm["cfg"].get("macros") or DEFAULT_MACROS)[-1]
        text = render_stmt(edit.get("shape", "bare"), mk, mac0, None, structured, "new file", module=mod0)
        files[p] = [["pad", "// new file\nfn n(count: u32, state: &str) {\n"], ["stmt", mk, text], ["pad", "}\n"]]
        touched.append(p)
        desc = "added file %s with %s" % (p, mk)
    elif kind == "del_file":
        ps = sorted(files)
        if len(ps) < 2:
            return None
        p = ps[edit["pick"] % len(ps)]
        del files[p]
        if root:
            try:
                os.unlink(os.path.join(root, p))
            except OSError:
                pass
        return "deleted file %s" % p
    elif kind == "touch_cfg":
        # the configuration file is saved again (a comment edited, a fresh checkout): same content, newer than the lock
        if root:
            full = os.path.join(root, "proj", wm.get("cfg_name", "Breadlog.yaml"))
            try:
                os.utime(full, None, follow_symlinks=True)
            except OSError:
                return None
        return "touched the configuration file"
    elif kind == "move_stmt":
        cands = [(p, i) for p in sorted(files) for i, s in enumerate(files[p]) if s[0] == "stmt"]
        ps = sorted(files)
        if not cands or len(ps) < 2:
            return None
        p, i = cands[edit["pick"] % len(cands)]
        q = ps[edit.get("pick2", 0) % len(ps)]
        if q == p:
            q = ps[(ps.index(p) + 1) % len(ps)]
        s = files[p][i]
        del files[p][i]
        files[q].append(["pad", "fn moved_%s(count: u32, state: &str) {\n" % s[1]])
        files[q].append(s)
        files[q].append(["pad", "}\n"])
        touched += [p, q]
        desc = "moved %s from %s to %s" % (s[1], p, q)
    else:
        raise ValueError(kind)
    if root:
        for p in touched:
            full = os.path.join(root, p)
            os.makedirs(os.path.dirname(full), exist_ok=True)
            with open(full, "wb") as f:
                f.write(segs_bytes(files[p]))
    return desc
